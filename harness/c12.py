"""C12 names resolve to the longest matching binding; macro variables are scoped.  Spec: CelNames.tla + CelEval; model MC_C12."""
from __future__ import annotations

import json
import random

from . import celx, evalx
from .celx import ct
from .core import Ctx, read_dump, pmap

INV = """INVARIANT WholeNameWins
INVARIANT PackageFirst
INVARIANT RootFallback
INVARIANT NoLeak
CHECK_DEADLOCK FALSE
"""


def name(comps):
    return ".".join("".join(chr(c) for c in comp) for comp in comps)


def observe(bs, pkg, ref, decl, order=0):
    # the order in which the caller lists the bindings is no part of their meaning: as generated, reversed, longest name first
    seq = list(bs) if order == 0 else list(reversed(bs)) if order == 1 else sorted(bs, key=lambda nv: -len(nv[0]))
    bind = {name(n): celx.to_cel(celx.dec(v)) for n, v in seq}
    ann = None
    if decl:
        ann = {k: (ct.IntType if isinstance(v, ct.IntType) else ct.MapType) for k, v in bind.items()}
        if decl == 2 and "a" in bind:
            ann["a"] = ct.StringType           # a declaration of another type must not matter either when `a` is bound
    text = name(ref)
    out = {}
    for r in ("I", "C"):
        out[r] = celx.outcome_abs(celx.run(text, bind, r, package=name(pkg) or None, annotations=ann, cache=False))
    return text, out


def describe(bs, pkg, ref):
    bound = sorted(name(n) + ("=map" if v["t"] == "map" else "") for n, v in bs)
    return "ref=%s pkg=%s" % (name(ref), name(pkg) or "-"), bound


def _replay(item):
    bs, pkg, ref, exp_w, j = item
    decl, order = j % 3, (j // 3) % 3
    exp = celx.dec(exp_w)
    text, obs = observe(bs, pkg, ref, decl, order)
    bad = []
    for r, got in obs.items():
        if not evalx.agrees(exp, got):
            d, bound = describe(bs, pkg, ref)
            # structural signature: which kinds of prefix are bound where
            lv = sorted(set(("pkg:" if name(n).startswith("p") else "root:") + str(len(name(n).split(".")) - (name(n).startswith("p.q.") and 2 or name(n).startswith("p.") and 1 or 0)) + ("m" if v["t"] == "map" else "s") for n, v in bs))
            names = [name(n) for n, _ in bs]
            levels = [""] + [".".join(name(pkg).split(".")[:j]) + "." for j in range(1, len(pkg) + 1)]
            overlap = any(b.startswith(lvl + name(ref) + ".") for lvl in levels for b in names)
            bad.append(("%s bound={%s}%s exp=%s got=%s decl=%d runner=%s" % (d, ",".join(lv), " ref-is-namespace-prefix" if overlap else "", evalx.kind_of(exp), evalx.kind_of(got) if got["t"] != exp["t"] else "other value", decl, r),
                        {"bindings": [[name(n), v] for n, v in bs], "package": name(pkg), "ref": text, "declared": decl, "runner": r, "expected": exp_w, "observed": got}))
    return len(obs), bad


def _replay_declared(item):
    prog, env_pairs, exp_w = item
    exp = celx.dec(exp_w)
    text = celx.render_ast(prog)
    bind = {n: celx.to_cel(celx.dec(v)) for n, v in env_pairs}
    ann = {n: ct.IntType for n in bind}
    bad = []
    for r in ("I", "C"):
        got = celx.outcome_abs(celx.run(text, bind, r, annotations=ann, cache=False))
        if not evalx.agrees(exp, got):
            bad.append(("declared identifier bound to %s: exp=%s got=%s runner=%s" % ("null" if any(v is None for v in bind.values()) else "a value", evalx.kind_of(exp),
                                                                                      evalx.kind_of(got) if got["t"] != exp["t"] else "other value", r),
                        {"cel": text, "bindings": env_pairs, "declared": "int", "runner": r, "expected": exp_w, "observed": got}))
    return 2, bad


def run(ctx: Ctx) -> int:
    q = ctx.quick
    r = ctx.tlc("MC_C12", 'SPECIFICATION Spec\nCONSTANT MODE = "names"\n' + INV, dump=True, name="binding configurations x packages x references")
    states = [s for s in read_dump(r.dump) if s["ref"]]
    if q:
        states = states[::3]
        ctx.cov["replay_note"] = "quick: every third configuration replayed (all model-checked)"
    items = [(s["bs"], s["pkg"], s["ref"], s["exp"], j) for j, s in enumerate(states)]
    nobs = 0
    for n, bad in pmap(_replay, items):
        nobs += n
        for sig, case in bad:
            ctx.disagree(sig, case)
    ctx.cov["traces_validated_against_impl"] += len(items)
    ctx.cov["evaluations"] += nobs
    ctx.cov["replayed_configurations"] = len(items)
    ctx.cov["indefinite_states"] = sum(1 for s in states if s["exp"]["t"] == "indef")
    for it in items[:: max(1, len(items) // 4)][:4]:
        ctx.sample({"bindings": [name(n) for n, _ in it[0]], "package": name(it[1]), "ref": name(it[2]), "expected": it[3]})
    r = ctx.tlc("MC_C12", 'SPECIFICATION Spec\nCONSTANT MODE = "macros"\n' + INV, dump=True, name="macro nestings")
    mstates = [s for s in read_dump(r.dump) if not (s["prog"]["k"] == "lit")]
    outer = [("x", celx.enc({"t": "int", "v": 100})), ("y", celx.enc({"t": "int", "v": 200}))]
    evalx.replay_states(ctx, [(s["prog"], [(b[0], b[1]) for b in s["bs"]], s["exp"]) for s in mstates])
    ctx.cov["replayed_macro_programs"] = len(mstates)
    # identifiers whose spelling means something to Python or to the implementation's internals
    r = ctx.tlc("MC_C12", 'SPECIFICATION Spec\nCONSTANT MODE = "idents"\nINVARIANT SpellingIrrelevant\nCHECK_DEADLOCK FALSE\n', dump=True, name="identifier spellings")
    istates = [s for s in read_dump(r.dump) if not (s["prog"]["k"] == "lit")]
    evalx.replay_states(ctx, [(s["prog"], [(b[0], b[1]) for b in s["bs"]], s["exp"]) for s in istates])
    # ... and with the identifier declared (as int): a binding, also a null one, takes precedence over the declaration
    nobs = 0
    for n, bad in pmap(_replay_declared, [(s["prog"], [(b[0], b[1]) for b in s["bs"]], s["exp"]) for s in istates if s["bs"]]):
        nobs += n
        for sig, case in bad:
            ctx.disagree(sig, case)
    ctx.cov["evaluations"] += nobs
    ctx.cov["replayed_identifier_programs"] = len(istates)
    ctx.sample({"cel": celx.render_ast(mstates[0]["prog"]), "outer": {"x": 100, "y": 200}, "expected": mstates[0]["exp"]})
    # code -> spec: random macro nestings with random variable names, judged by Trace_Eval (Eval models scoping with an environment stack)
    rng = random.Random(ctx.seed)

    def rand_macro(depth, scope):
        v = rng.choice(["x", "y", "z"])
        xs = {"k": "lit", "v": celx.enc({"t": "list", "v": [{"t": "int", "v": rng.randint(0, 3)} for _ in range(rng.randint(1, 3))]})}
        inner_scope = scope + [v]
        if depth > 0 and rng.random() < 0.7:
            body = rand_macro(depth - 1, inner_scope)
            if body.get("m") in ("all", "exists", "exists_one"):
                body = {"k": "cond", "c": body, "a": {"k": "var", "n": rng.choice(inner_scope)}, "b": {"k": "lit", "v": celx.enc({"t": "int", "v": -1})}}
            m = "map"
        else:
            m = rng.choice(["map", "filter", "all", "exists", "exists_one"])
            a, b = rng.choice(inner_scope), rng.choice(inner_scope)
            body = {"k": "bin", "op": "+", "l": {"k": "var", "n": a}, "r": {"k": "var", "n": b}} if m == "map" else \
                {"k": "bin", "op": rng.choice(["<", "==", ">="]), "l": {"k": "var", "n": a}, "r": {"k": "var", "n": b}}
        return {"k": "macro", "m": m, "x": xs, "v": v, "body": body}
    progs = []
    for _ in range(400 if q else 50000):
        p = rand_macro(rng.randint(0, 2), ["x", "y"])
        p = {"k": "list", "xs": [p, {"k": "var", "n": "x"}, {"k": "var", "n": "y"}]}
        progs.append((p, outer))
    evalx.validate_trace(ctx, progs, name="trace validation (macro scoping)")
    ctx.assumptions += ["references that stop at a bare namespace prefix (only longer names are bound) are indefinite: the statement is silent on them",
                        "leading-dot references are not generated"]
    return ctx.finish(rule="TLC enumerates every configuration of bindings over a.b.c at the root and under p / p.q (scalar, nested map, both) x package x "
                           "reference, and nested macros with colliding / distinct variables; the implementation must return the tagged value the "
                           "specification resolves to, with and without declarations, under both runners. distinct = distinct configurations",
                      extra={"distinct_nontrivial": len(items) + len(mstates) + len(progs)})


def replay(path):
    d = json.load(open(path))
    c = d["case"]
    if "prog" in c:
        return evalx.replay_file(path)
    bs = [([[ord(ch) for ch in comp] for comp in n.split(".")], v) for n, v in c["bindings"]]
    pkg = [[ord(ch) for ch in comp] for comp in c["package"].split(".")] if c["package"] else []
    ref = [[ord(ch) for ch in comp] for comp in c["ref"].split(".")]
    n, bad = _replay((bs, pkg, ref, c["expected"], c["declared"]))
    for s, cc in bad:
        print(s)
    return 1 if bad else 0
