"""C08 equality and ordering are coherent.  Spec: CelValue.tla (Eq, Lt, Rel); model MC_C08; trace spec Trace_C08."""
from __future__ import annotations

import json
import random

from . import celx
from .core import Ctx, read_dump, write_ndjson, trace_verdict, pmap

FAMILIES = ["int", "uint", "double", "string", "bytes", "bool", "timestamp", "duration", "list_int", "list_nest",
            "list_str", "map", "map_nest", "map_intkey", "map_null", "list_null", "list_mapnull"]
INV = """INVARIANT Reflexive
INVARIANT Symmetric
INVARIANT NeIsNegation
INVARIANT Trichotomy
INVARIANT Converse
INVARIANT LeDecomposition
INVARIANT Transitive
INVARIANT EqTransitive
INVARIANT Congruence
INVARIANT Definite
CHECK_DEADLOCK FALSE
"""
OFFSETS = [0, 330, -480, 840, -720, 60, -210, -30, 345, -570]       # minutes; negative offsets with and without a minutes part


def ts_text(us, k):
    """RFC 3339 text of instant `us` written with the k-th offset (falls back to Z when the local year leaves 0001-9999)."""
    off = OFFSETS[k % len(OFFSETS)]
    local = us + off * 60 * 10**6
    days = local // (86400 * 10**6)
    y = celx.civil_from_days(days)[0]
    if off == 0 or not (1 <= y <= 9999):
        return celx.rfc3339(us)
    sign = "+" if off >= 0 else "-"
    return celx.rfc3339(local)[:-1] + "%s%02d:%02d" % (sign, abs(off) // 60, abs(off) % 60)


def lit(a, k=0):
    if a["t"] == "timestamp":
        return 'timestamp("%s")' % ts_text(a["v"], k)
    if a["t"] == "list":
        return "[" + ", ".join(lit(x, k) for x in a["v"]) + "]"
    if a["t"] == "map":
        return "{" + ", ".join("%s: %s" % (lit(x, k), lit(y, k)) for x, y in a["v"]) + "}"
    return celx.lit(a)


def observe(a, b, op, k):
    """a op b through literals and bound variables under both runners -> {path: abstract outcome}"""
    out = {}
    text = "%s %s %s" % (lit(a, k), op, lit(b, k + 1))
    for r in ("I", "C"):
        out["expr" + r] = celx.strip_py(celx.outcome_abs(celx.run(text, {}, r)))
        out["vars" + r] = celx.strip_py(celx.outcome_abs(celx.run("x %s y" % op, {"x": celx.to_cel(a), "y": celx.to_cel(b)}, r)))
    return out, text


def _replay(item):
    fam, a, b, exp, k = item
    bad, n = [], 0
    for op, want in exp.items():
        obs, text = observe(a, b, op, k)
        for path, got in obs.items():
            n += 1
            if got != {"t": "bool", "v": want}:
                bad.append(("%s %s exp=%s got=%s" % (fam, op, want, got.get("v") if got["t"] == "bool" else got["t"]),
                            {"family": fam, "op": op, "a": celx.enc(a), "b": celx.enc(b), "cel": text, "path": path,
                             "expected": want, "observed": got, "k": k}))
    return n, bad


def rand_value(rng, fam, depth=0):
    if fam == "int":
        return {"t": "int", "v": rng.choice([rng.randint(-(2**63), 2**63 - 1), rng.randint(-5, 5)])}
    if fam == "uint":
        return {"t": "uint", "v": rng.choice([rng.randint(0, 2**64 - 1), rng.randint(0, 5)])}
    if fam == "double":
        import math
        return {"t": "double", "v": rng.choice([math.ldexp(rng.randint(-2**53, 2**53), rng.randint(-1074, 960)), float(rng.randint(-3, 3)), 0.0, -0.0, math.inf, -math.inf, rng.random()])}
    if fam == "bool":
        return {"t": "bool", "v": rng.random() < 0.5}
    if fam == "string":
        n = rng.randint(0, 4)
        return {"t": "string", "v": "".join(chr(rng.choice([97, 98, 65, 0xe9, 0xffff, 0x1f431, 0x10000, 0xd7ff, 0xe000, 1, 0x7f])) for _ in range(n))}
    if fam == "bytes":
        return {"t": "bytes", "v": bytes(rng.choice([0, 1, 97, 127, 128, 255]) for _ in range(rng.randint(0, 4)))}
    if fam == "timestamp":
        lo, hi = -62135596800 * 10**6, 253402300799 * 10**6 + 999999
        base = rng.choice([rng.randint(lo, hi), 1577836800 * 10**6, 0])
        return {"t": "timestamp", "v": min(hi, max(lo, base + rng.choice([0, 1, -1, 10**6, -10**6, 3600 * 10**6])))}
    if fam == "duration":
        m = 315576000000 * 10**6
        return {"t": "duration", "v": rng.choice([rng.randint(-m, m), rng.randint(-3, 3), rng.randint(-3, 3) * 10**6])}
    if fam == "list":      # flat int lists
        return {"t": "list", "v": [{"t": "int", "v": rng.randint(0, 2)} for _ in range(rng.randint(0, 3))]}
    if fam == "list2":     # lists of int lists (every element a list: element types stay homogeneous)
        return {"t": "list", "v": [{"t": "list", "v": [{"t": "int", "v": rng.randint(0, 1)} for _ in range(rng.randint(0, 2))]} for _ in range(rng.randint(0, 3))]}
    if fam == "map":
        keys = rng.sample(["a", "b", "c", "é"], rng.randint(0, 3))
        return {"t": "map", "v": [[{"t": "string", "v": k}, {"t": "int", "v": rng.randint(0, 1)}] for k in keys]}
    raise ValueError(fam)


def _observe_ev(ev):
    a, b, op, k = ev
    return observe(a, b, op, k)


def state_item(s, i):
    exp = s["exp"]
    return (s["fam"], celx.dec(s["a"]), celx.dec(s["b"]), exp, i)


def run(ctx: Ctx) -> int:
    q = ctx.quick
    r = ctx.tlc("MC_C08", "SPECIFICATION Spec\nCONSTANT FAMILIES = {%s}\n%s" % (", ".join('"%s"' % f for f in FAMILIES), INV),
                dump=True, name="all pairs of every same-type pool")
    states = read_dump(r.dump)
    items = [state_item(s, i) for i, s in enumerate(states)]
    nobs = 0
    for n, bad in pmap(_replay, items):
        nobs += n
        for sig, case in bad:
            ctx.disagree(sig, case)
    ctx.cov["traces_validated_against_impl"] += len(items)
    ctx.cov["evaluations"] += nobs
    ctx.cov["replayed_states"] = len(items)
    for it in items[:: max(1, len(items) // 4)][:4]:
        ctx.sample({"family": it[0], "cel": "%s == %s" % (lit(it[1], it[4]), lit(it[2], it[4] + 1)), "expected": it[3]})
    # code -> spec
    rng = random.Random(ctx.seed)
    evs = []
    fams = ["int", "uint", "double", "bool", "string", "bytes", "timestamp", "duration", "list", "list2", "map"]
    for j in range(800 if q else 100000):
        fam = rng.choice(fams)
        a = rand_value(rng, fam)
        b = rand_value(rng, fam) if rng.random() < 0.7 else json.loads(json.dumps(a)) if fam not in ("bytes", "double") else dict(a)
        if fam == "map" and rng.random() < 0.3:
            b = {"t": "map", "v": list(reversed(a["v"]))}
        ops = ["==", "!="] if fam in ("list", "list2", "map") else ["==", "!=", "<", "<=", ">", ">="]
        evs.append((a, b, rng.choice(ops), j))
    obs = pmap(_observe_ev, evs)
    lines, index = [], []
    for (a, b, op, k), (o, text) in zip(evs, obs):
        for path, got in o.items():
            lines.append({"a": celx.enc(a), "b": celx.enc(b), "op": op,
                          "out": got if got["t"] == "bool" else {"t": got["t"], "v": False}})
            index.append((a, b, op, path, got, text))
    tf = ctx.work / "trace.ndjson"
    write_ndjson(tf, lines)
    tr = ctx.tlc("Trace_C08", "INIT Init\nNEXT Next\nPOSTCONDITION Post\nCHECK_DEADLOCK FALSE\n", workers=1,
                 env={"TRACE_FILE": str(tf)}, name="trace validation")
    rej, cons = trace_verdict(tr.stdout, len(lines))
    for idx, exp in rej:
        a, b, op, path, got, text = index[idx - 1]
        ctx.disagree("%s %s exp=%s got=%s" % (a["t"], op, exp["v"], got.get("v") if got["t"] == "bool" else got["t"]),
                     {"op": op, "a": celx.enc(a), "b": celx.enc(b), "cel": text, "path": path, "expected": exp["v"], "observed": got, "from": "trace"})
    ctx.cov["traces_validated_against_impl"] += len(lines)
    ctx.cov["evaluations"] += len(lines)
    ctx.cov["trace_events"] = len(lines)
    ctx.assumptions += ["NaN is excluded (the statement orders doubles without NaN)",
                        "lists/maps compared are element-type homogeneous (the statement is about same-type values; CEL leaves [1] == ['a'] open)",
                        "timestamp offsets are spellings chosen by the harness with its own calendar arithmetic; the spec compares instants"]
    return ctx.finish(rule="TLC enumerates all ordered pairs of each same-type pool (14 families) with the six relations; every pair x "
                           "relation is evaluated as literals and as bound variables under both runners; random same-type values are "
                           "validated by Trace_C08. distinct = distinct (a, b) pairs",
                      extra={"distinct_nontrivial": len(items) + len(evs)})


def replay(path):
    d = json.load(open(path))
    c = d["case"]
    a, b = celx.dec(c["a"]), celx.dec(c["b"])
    obs, text = observe(a, b, c["op"], c.get("k", 0))
    print(text, obs)
    ok = all(g == {"t": "bool", "v": c["expected"]} for g in obs.values())
    return 0 if ok else 1
