"""C20 CLI output and exit status reflect the evaluation result.  Spec: CelCli.tla; model MC_C20; trace Trace_C20."""
from __future__ import annotations

import io
import json
import os
import random
import subprocess
import sys

from . import celx
from .c15 import to_py, from_py, same_doc, rand_doc
from .core import Ctx, read_dump, write_ndjson, trace_verdict, pmap
import celpy.__main__ as cli

INV = "SPECIFICATION Spec\nCONSTANT LEN = %d\nINVARIANT Independent\nINVARIANT WorstStatus\nINVARIANT BooleanStatus\nCHECK_DEADLOCK FALSE\n"
NOTJSON_TEXTS = ["{oops", "[1, 2", "nope", "{'a': 1}"]
TYPE_NAMES = {"int": ["int", "int64_value", "single_int64"], "uint": ["uint", "uint64_value"], "double": ["double", "double_value"], "bool": ["bool", "bool_value"],
              "string": ["string", "string_value"]}


def run_main(argv, stdin_text):
    """celpy.__main__.main(argv) with the standard streams captured -> (status, stdout, stderr)"""
    old = sys.stdin, sys.stdout, sys.stderr
    sys.stdin, sys.stdout, sys.stderr = io.StringIO(stdin_text), io.StringIO(), io.StringIO()
    try:
        try:
            status = cli.main(argv)
        except SystemExit as ex:
            status = "exit:%s" % ex.code
        except Exception as ex:  # noqa: BLE001
            status = "exc:" + type(ex).__name__
        return status, sys.stdout.getvalue(), sys.stderr.getvalue()
    finally:
        sys.stdin, sys.stdout, sys.stderr = old


def doc_text(d, j=0):
    if d["j"] == "notjson":
        return NOTJSON_TEXTS[j % len(NOTJSON_TEXTS)]
    # a JSON text on one line: non-ASCII characters may stand unescaped (U+2028 / U+0085 are not line ends in NDJSON: only LF is)
    return json.dumps(to_py(d), ensure_ascii=(j % 2 == 1))


def expr_text(e, spelling):
    """the same expression spelled for the default package (-p jq: jq.a or a), or a document variable (-d doc: doc.a)"""
    t = celx.render_ast(e)
    if spelling == "d":
        return t.replace("jq", "doc"), ["-d", "doc"]
    if spelling == "p":
        return t, ["-p", "jq"]
    return t, []


def parse_lines(stdout):
    out = []
    for ln in stdout.splitlines():
        try:
            out.append(from_py(json.loads(ln)))
        except Exception:  # noqa: BLE001
            out.append({"j": "unparsable", "text": ln[:80]})
    return out


def _replay(item):
    st, j = item
    bad = []
    e, b = st["expr"], st["flagb"]
    if st["mode"] == "ndjson":
        docs = st["docs"]
        text_in = "".join(doc_text(d, j + k) + "\n" for k, d in enumerate(docs))
        for spelling in ("", "d", "p")[: 1 + (j % 3 == 0) * 2]:
            text, flags = expr_text(e, spelling)
            argv = (["-b"] if b else []) + flags + [text]
            status, out, err = run_main(argv, text_in)
            got_lines = parse_lines(out)
            want = [w for w in st["lines"] if w["j"] != "noline"]
            kinds = ",".join(sorted(set(("notjson" if d["j"] == "notjson" else "doc") for d in docs))) or "empty"
            if len(got_lines) != len(want):
                bad.append(("ndjson%s: %d output lines for %d documents {%s}" % (" -b" if b else "", len(got_lines), len(want), kinds), {"argv": argv, "stdin": text_in, "stdout": out, "status": status}))
            else:
                for k, (g, w) in enumerate(zip(got_lines, want)):
                    if w["j"] != "indef" and not same_doc(g, w):
                        bad.append(("ndjson%s: output line differs (%s)" % (" -b" if b else "", celx.evalx_root(e)), {"argv": argv, "stdin": text_in, "stdout": out, "line": k, "expected": w}))
                        break
            if 99 not in st["status"] and status not in st["status"]:
                bad.append(("ndjson%s: exit status %s instead of %s {%s}" % (" -b" if b else "", status, st["status"], kinds), {"argv": argv, "stdin": text_in, "stdout": out, "status": status}))
        # -s: the whole of stdin is one document
        if len(docs) == 1 and docs[0]["j"] != "notjson" and j % 2 == 0:
            text, flags = expr_text(e, "")
            pretty = json.dumps(to_py(docs[0]), indent=2) + "\n"
            status, out, err = run_main((["-b"] if b else []) + ["-s", text], pretty)
            got_lines = parse_lines(out)
            want = [w for w in st["lines"] if w["j"] != "noline"]
            if len(got_lines) != len(want) or any(w["j"] != "indef" and not same_doc(g, w) for g, w in zip(got_lines, want)):
                bad.append(("slurp: output differs", {"stdin": pretty, "stdout": out, "expected": want}))
        return 1, bad
    # -n mode with one typed argument
    name, val = st["args"][0]
    a = celx.dec(val)
    tname = a["t"]
    text = celx.render_ast(e)
    for tn in TYPE_NAMES[tname][: 1 + (j % 2)]:
        vtext = {"int": lambda: str(a["v"]), "uint": lambda: str(a["v"]), "double": lambda: repr(a["v"]), "bool": lambda: "true" if a["v"] else "false", "string": lambda: a["v"]}[tname]()
        argv = ["-n"] + (["-b"] if b else []) + ["--arg", "%s:%s=%s" % (name, tn, vtext), text]
        status, out, err = run_main(argv, "")
        want = st["lines"][0]
        if 99 not in st["status"] and status not in st["status"]:
            bad.append(("null-input%s: exit status %s instead of %s (%s)" % (" -b" if b else "", status, st["status"], celx.evalx_root(e)), {"argv": argv, "stdout": out, "stderr": err[:200], "status": status}))
        if want["j"] not in ("noline", "indef"):
            got_lines = parse_lines(out)
            if len(got_lines) != 1 or not same_doc(got_lines[0], want):
                bad.append(("null-input: output differs (%s, arg type %s)" % (celx.evalx_root(e), tn), {"argv": argv, "stdout": out, "expected": want}))
    return 1, bad


def syntax_errors():
    """a syntax error exits 1 with a message locating it"""
    bad = []
    for text in ["1 +", "(1", "1 2", "a b c", "[1,", "1 +\n +", "\"abc", "x.true", "1 ? 2", "{1:}"]:
        for flags in ([], ["-b"]):
            status, out, err = run_main(["-n"] + flags + [text], "")
            located = "<input>:" in err and "^" in err
            if status != 1 or not located:
                bad.append(("syntax error: status %s, located=%s" % (status, located), {"expr": text, "status": status, "stderr": err[:300]}))
    # ... locating it: the offending token is the character marked by the harness (leading blank space and lines included)
    for text in ["1 +* 2", "\n  1 +* 2", "   (1 ] 2", "1 +\n\n   * 3", "\t\tx . . y", "  \n \n[1, 2 3]"]:
        idx = next(i for i, ch in enumerate(text) if ch in "*]" or text[i:i + 3] == ". y" or text[i:i + 2] == "3]")
        line = text.count("\n", 0, idx) + 1
        col = idx - (text.rfind("\n", 0, idx) + 1) + 1
        status, out, err = run_main(["-n", text], "")
        if status != 1 or "<input>:%d:%d" % (line, col) not in err:
            bad.append(("syntax error: reported position is not the offending token's", {"expr": text, "status": status, "expected": "%d:%d" % (line, col), "stderr": err[:200]}))
    return bad


def _random_run(item):
    e, b, docs, j = item
    text_in = "".join(doc_text(d, j + k) + "\n" for k, d in enumerate(docs))
    argv = (["-b"] if b else []) + [celx.render_ast(e)]
    status, out, err = run_main(argv, text_in)
    return {"expr": e, "b": b, "docs": docs, "lines": parse_lines(out), "status": status if isinstance(status, int) else -1}, argv, text_in, out


def run(ctx: Ctx) -> int:
    q = ctx.quick
    r = ctx.tlc("MC_C20", INV % (3 if q else 4), dump=True, name="expressions x document streams x flags; -n with typed arguments")
    states = [s for s in read_dump(r.dump) if s["mode"] != "init"]
    if not q and len(states) > 20000:
        states = states[::2]
    nobs = 0
    for n, bad in pmap(_replay, [(s, j) for j, s in enumerate(states)]):
        nobs += n
        for sig, case in bad:
            ctx.disagree(sig, case)
    for sig, case in syntax_errors():
        ctx.disagree(sig, case)
    ctx.cov["traces_validated_against_impl"] += len(states)
    ctx.cov["evaluations"] += nobs + 20
    ctx.cov["replayed_runs"] = len(states)
    s0 = next(s for s in states if s["mode"] == "ndjson" and len(s["docs"]) == 3)
    ctx.sample({"argv": (["-b"] if s0["flagb"] else []) + [celx.render_ast(s0["expr"])], "stdin": [doc_text(d, k) for k, d in enumerate(s0["docs"])], "stdout": s0["lines"], "status": s0["status"]})
    # a sample through the real entry point: python -m celpy
    sub = 0
    for s in [x for x in states if x["mode"] == "ndjson" and 1 <= len(x["docs"]) <= 3][:: max(1, len(states) // (6 if q else 40))]:
        text_in = "".join(doc_text(d, k) + "\n" for k, d in enumerate(s["docs"]))
        p = subprocess.run([sys.executable, "-m", "celpy"] + (["-b"] if s["flagb"] else []) + [celx.render_ast(s["expr"])], input=text_in, capture_output=True, text=True,
                           env={"PYTHONPATH": os.environ.get("VERIF_REPO", "/repo") + "/src", "PATH": "/usr/bin:/bin"})
        sub += 1
        want = [w for w in s["lines"] if w["j"] != "noline"]
        got = parse_lines(p.stdout)
        if (99 not in s["status"] and p.returncode not in s["status"]) or len(got) != len(want) or any(w["j"] != "indef" and not same_doc(g, w) for g, w in zip(got, want)):
            ctx.disagree("python -m celpy differs from the specification", {"stdin": text_in, "stdout": p.stdout, "status": p.returncode, "expected_status": s["status"]})
    ctx.cov["subprocess_runs"] = sub
    # code -> spec: random documents and streams
    rng = random.Random(ctx.seed)
    from .c09 import L
    jq = {"k": "var", "n": "jq"}
    sel = lambda f: {"k": "sel", "x": jq, "f": [ord(c) for c in f]}  # noqa: E731
    exprs = [{"k": "bin", "op": ">", "l": sel("a"), "r": L("int", 1)}, sel("a"), sel("s"), {"k": "has", "x": jq, "f": [97]}, jq,
             {"k": "call", "f": "size", "args": [jq]}, {"k": "bin", "op": "==", "l": sel("a"), "r": sel("b")},
             {"k": "cond", "c": {"k": "has", "x": jq, "f": [97]}, "a": sel("a"), "b": L("string", "none")}]
    runs = []
    for j in range(150 if q else 12000):
        docs = []
        for _ in range(rng.randint(0, 5)):
            k = rng.random()
            if k < 0.12:
                docs.append({"j": "notjson"})
            elif k < 0.6:
                keys = rng.sample(["a", "b", "s"], rng.randint(0, 3))
                docs.append({"j": "obj", "v": [[[ord(c) for c in kk], rand_doc(rng, 1)] for kk in keys]})
            else:
                docs.append(rand_doc(rng, 2))
        runs.append((rng.choice(exprs), rng.random() < 0.5, docs, j))
    res = pmap(_random_run, runs)
    lines = [ev for ev, _, _, _ in res]
    tf = ctx.work / "trace.ndjson"
    write_ndjson(tf, lines)
    tr = ctx.tlc("Trace_C20", "INIT Init\nNEXT Next\nPOSTCONDITION Post\nCHECK_DEADLOCK FALSE\n", workers=1, env={"TRACE_FILE": str(tf)}, name="trace validation (random streams)")
    rej, cons = trace_verdict(tr.stdout, len(lines))
    for idx, why in rej:
        ev, argv, text_in, out = res[idx - 1]
        ctx.disagree("random stream%s: %s differs" % (" -b" if ev["b"] else "", why), {"argv": argv, "stdin": text_in, "stdout": out, "status": ev["status"], "why": why, "from": "trace"})
    ctx.cov["traces_validated_against_impl"] += len(lines)
    ctx.cov["evaluations"] += len(lines)
    ctx.cov["trace_events"] = len(lines)
    ctx.assumptions += ["a line that is not JSON produces no output line (the implementation's convention, adopted by the specification)",
                        "the per-document status of a non-boolean result under -b in NDJSON mode may be 0 (as the code has it) or 2 (the statement read per document); any other status is a violation",
                        "stdout is compared after JSON parsing (type-strict), not as text"]
    return ctx.finish(rule="TLC enumerates expressions x every stream of up to LEN documents over document kinds (matching, non-matching, erroring, not JSON) x -b, and "
                           "-n runs with typed --arg bindings; per-document independence and worst-status are model invariants; each state is run through "
                           "celpy.__main__.main (with -d / -p spellings and -s), a sample through `python -m celpy`; syntax errors must exit 1 with a located message; "
                           "random streams are judged by Trace_C20. distinct = distinct runs",
                      extra={"distinct_nontrivial": len(states) + len(runs)})


def replay(path):
    d = json.load(open(path))
    c = d["case"]
    if "argv" in c:
        status, out, err = run_main(c["argv"], c.get("stdin", ""))
        print(c["argv"], "->", status, repr(out), repr(err[:200]))
    return 1
