"""C19 translated value clauses keep their operator, operands and literals.  Spec: C7nValue.tla; model MC_C19; trace Trace_C19."""
from __future__ import annotations

import ast
import json
import os
import random
import sys

from . import celx
from .celx import ct
from .core import Ctx, read_dump, write_ndjson, trace_verdict, pmap, big
from .c06 import tokenize
sys.path.insert(0, os.environ.get("VERIF_REPO", "/repo") + "/src")
from xlate.c7n_to_cel import C7N_Rewriter  # noqa: E402
import celpy.c7nlib as c7nlib  # noqa: E402
from celpy.adapter import json_to_cel  # noqa: E402

NOW_US = (celx.days_from_civil(2021, 6, 1) * 86400) * 10**6


def s_of(v):
    return "".join(chr(c) for c in v)


def to_policy(a):
    """abstract value -> what a policy file holds (plain Python)"""
    t = a["t"]
    if t in ("int",):
        return a["v"]
    if t == "string":
        return a["v"]
    if t == "list":
        return [to_policy(x) for x in a["v"]]
    if t == "bool":
        return a["v"]
    if t == "timestamp":
        return celx.rfc3339(a["v"])
    raise ValueError(a)


def observe_op(case):
    r, v = celx.dec(case["r"]), celx.dec(case["v"])
    flt = {"type": "value", "key": "k", "op": case["op"], "value": to_policy(v)}
    if case["vt"] != "none":
        flt["value_type"] = case["vt"]
    try:
        text = C7N_Rewriter.type_value_rewrite("ec2", flt)
    except Exception as ex:  # noqa: BLE001
        return None, {"t": "exc", "cls": type(ex).__name__, "phase": "translate", "msg": str(ex)[:100]}, flt
    res = json_to_cel({"k": to_policy(r)})
    bind = {"resource": res, "now": ct.TimestampType(celx.rfc3339(NOW_US))}
    got = celx.strip_py(celx.outcome_abs(celx.run(text, bind, "I", functions=c7nlib.FUNCTIONS)))
    gotc = celx.strip_py(celx.outcome_abs(celx.run(text, bind, "C", functions=c7nlib.FUNCTIONS)))
    if gotc != got and gotc.get("t") != "err" and got.get("t") != "err":
        got = {"t": "runners-differ", "I": got, "C": gotc}
    elif gotc != got:
        got = {"t": "runners-differ", "I": got, "C": gotc} if {gotc.get("t"), got.get("t")} != {"err"} else got
    return text, got, flt


def composes(text, bind, decision, runners=("I", "C")):
    """the clause's decision is a CEL boolean: negated (as `not:` emits it) and joined with another clause (as a list / `and` emits it)
    it gives the negated / same decision, under both runners -> list of (what, observed)"""
    out = []
    for r in runners:
        for what, wrapped, want in (("negated", "! (%s)" % text, not decision), ("joined", "(%s) && true" % text, decision), ("alternative", "false || (%s)" % text, decision)):
            got = celx.strip_py(celx.outcome_abs(celx.run(wrapped, bind, r, functions=c7nlib.FUNCTIONS)))
            if got != {"t": "bool", "v": want}:
                out.append((what + " runner=" + r, got))
    return out


def _replay_op(item):
    case, exp = item
    text, got, flt = observe_op(case)
    bad = []
    want = {"t": "bool", "v": exp["v"]}
    if got == want:
        res = json_to_cel({"k": to_policy(celx.dec(case["r"]))})
        bind = {"resource": res, "now": ct.TimestampType(celx.rfc3339(NOW_US))}
        for what, obs in composes(text, bind, exp["v"])[:1]:
            bad.append(("op=%s value_type=%s: the decision cannot be %s" % (case["op"], case["vt"], what.split()[0]),
                        {"filter": flt, "resource": {"k": to_policy(celx.dec(case["r"]))}, "cel": text, "composition": what, "observed": obs}))
    if got != want:
        kind = lambda x: x["t"]  # noqa: E731
        bad.append(("op=%s value_type=%s operands=%s,%s: %s" % (case["op"], case["vt"], kind(case["r"]), kind(case["v"]),
                                                               "opposite decision" if got["t"] == "bool" else got["t"] + (":" + got.get("cls", "") if got["t"] == "exc" else "")),
                    {"filter": flt, "resource": {"k": to_policy(celx.dec(case["r"]))}, "cel": text, "expected": exp["v"], "observed": got}))
    return text, bad


def _replay_presence(item):
    case, exp = item
    form, res, value = case["form"], case["res"], case["value"]
    if form == "key":
        flt = {"type": "value", "key": "k", "value": value}
        doc = {} if res == "missing" else {"k": None if res == "null" else "a"}
    elif form == "path":
        flt = {"type": "value", "key": "a.k", "value": value}
        doc = {"a": {}} if res == "missing" else {"a": {"k": None if res == "null" else "v"}}
    else:
        flt = {"tag:Owner": value}
        doc = {"Tags": [{"Key": "Other", "Value": "x"}] + ([] if res == "missing" else [{"Key": "Owner", "Value": None if res == "null" else "me"}])}
    bad = []
    try:
        text = C7N_Rewriter.primitive("ec2", flt)
    except Exception as ex:  # noqa: BLE001
        return None, [("presence: translator raises %s" % type(ex).__name__, {"filter": flt})]
    bind = {"resource": json_to_cel(doc)}
    for r in ("I", "C"):
        got = celx.strip_py(celx.outcome_abs(celx.run(text, bind, r, functions=c7nlib.FUNCTIONS)))
        if got != {"t": "bool", "v": exp["v"]}:
            bad.append(("presence value=%s attribute=%s form=%s: %s runner=%s" % (value, res, form, "opposite decision" if got["t"] == "bool" else got["t"], r),
                        {"filter": flt, "resource": doc, "cel": text, "expected": exp["v"], "observed": got, "runner": r}))
    if not bad:
        for what, obs in composes(text, bind, exp["v"])[:1]:
            bad.append(("presence value=%s form=%s: the decision cannot be %s" % (value, form, what.split()[0]),
                        {"filter": flt, "resource": doc, "cel": text, "composition": what, "observed": obs}))
    return text, bad


def literal_sites(s):
    """every place a policy string ends up as a CEL literal -> (site, emitted literal text)"""
    out = [("q()", C7N_Rewriter.q(s)), ("q(',')", C7N_Rewriter.q(s, quote="'"))]
    try:
        t = C7N_Rewriter.value_to_cel("KEY", "eq", s)
        if s not in ("true", "false"):
            out.append(("value", t[len("KEY == "):]))
    except Exception:  # noqa: BLE001
        pass
    try:
        t = C7N_Rewriter.key_to_cel(s) if (":" not in s and "." not in s and "(" not in s) else None
        if t:
            out.append(("key", t[len("resource["):-1]))
        if "." not in s and "(" not in s:          # (a dotted key is a path, handled by another branch of key_to_cel)
            t = C7N_Rewriter.key_to_cel("tag:" + s)
            pre = 'resource["Tags"].filter(x, x["Key"] == '
            out.append(("tag name", t[len(pre):-len(')[0]["Value"]')]))
    except Exception:  # noqa: BLE001
        pass
    try:
        t = C7N_Rewriter.value_from_to_cel("KEY", "in", {"url": s})
        out.append(("url", t[len("value_from("):-len(").contains(KEY)")]))
    except Exception:  # noqa: BLE001
        pass
    return out


def _replay_literal(s):
    bad, evs = [], []
    for site, text in literal_sites(s):
        evs.append({"kind": "literal", "s": [ord(c) for c in s], "text": [ord(c) for c in text], "site": site})
        got = celx.strip_py(celx.outcome_abs(celx.run(text, {}, "I", cache=False)))
        gotc = celx.strip_py(celx.outcome_abs(celx.run(text, {}, "C", cache=False)))
        if got == {"t": "string", "v": s} and gotc != got:
            got = gotc if gotc.get("t") != "exc" else {"t": "exc:%s under CompiledRunner" % gotc.get("cls")}
        if got != {"t": "string", "v": s}:
            chars = sorted(set("quote" if c in "\"'" else "backslash" if c == "\\" else "control" if ord(c) < 32 else "nonascii" if ord(c) > 126 else "plain" for c in s) - {"plain"})
            bad.append(("literal via %s chars{%s}: %s" % (site, ",".join(chars), "another string" if got["t"] == "string" else got["t"]),
                        {"string": s, "site": site, "emitted": text, "observed": got}))
    return evs, bad


def _replay_duration(secs):
    bad, evs = [], []
    sites = [("seconds_to_duration", C7N_Rewriter.seconds_to_duration(secs))]
    if secs % 43200 == 0:
        sites.append(("age_to_duration", C7N_Rewriter.age_to_duration(secs / 86400)))
        sites.append(("age_to_duration(str)", C7N_Rewriter.age_to_duration(str(secs / 86400))))
    for site, lit in sites:
        inner = lit[1:-1] if len(lit) >= 2 and lit[0] == lit[-1] == '"' else lit
        evs.append({"kind": "duration", "secs": big(secs), "text": [ord(c) for c in inner], "site": site})
        got = celx.strip_py(celx.outcome_abs(celx.run("duration(%s)" % lit, {}, "I", cache=False)))
        if got != {"t": "duration", "v": secs * 10**6}:
            bad.append(("duration via %s: %s" % (site, "another length" if got["t"] == "duration" else got["t"]) + (" (zero)" if secs == 0 else ""),
                        {"seconds": secs, "emitted": lit, "observed": got}))
    return evs, bad


SAMPLES = {
    "age": {"type": "age", "days": 21, "op": "gt"},
    "security-group": {"type": "security-group", "key": "GroupId", "value": "sg-1", "op": "eq"},
    "subnet": {"type": "subnet", "key": "MapPublicIpOnLaunch", "value": False, "op": "eq"},
    "vpc": {"type": "vpc", "key": "VpcId", "value": "vpc-1", "op": "eq"},
    "kms-key": {"type": "kms-key", "key": "c7n:AliasName", "value": "^(alias/aws/)", "op": "regex"},
    "kms-alias": {"type": "kms-alias", "key": "AliasName", "value": "^(alias/aws/)", "op": "regex"},
    "cross-account": {"type": "cross-account"},
    "cross-account-wl": {"type": "cross-account", "whitelist": ["permitted-account-01"], "whitelist_from": {"expr": "accounts.*.accountNumber", "url": "http://x/y.json"}},
    "used": {"type": "used"}, "unused": {"type": "unused"},
    "is-logging": {"type": "is-logging", "bucket": "b", "prefix": "p"},
    "is-not-logging": {"type": "is-not-logging", "bucket": "b", "prefix": "p"},
    "flow-logs": {"type": "flow-logs", "enabled": True, "set-op": "or", "op": "equal", "traffic-type": "all", "status": "active", "log-group": "vpc-logs"},
    "image-age": {"type": "image-age", "days": 30, "op": "ge"},
    "image": {"type": "image", "key": "Name", "value": "x", "op": "regex"},
    "credential": {"type": "credential", "key": "access_keys.active", "value": True},
    "network-location": {"type": "network-location", "compare": ["resource", "security-group"], "key": "tag:NetworkLocation", "match": "equal"},
    "shield-enabled": {"type": "shield-enabled", "state": False},
    "waf-enabled": {"type": "waf-enabled", "state": False, "web-acl": "w"},
    "health-event": {"type": "health-event", "statuses": ["upcoming", "open"]},
    "metrics": {"type": "metrics", "name": "CPUUtilization", "days": 4, "period": 86400, "value": 30, "op": "less-than"},
    "tag-count": {"type": "tag-count", "count": 8},
    "marked-for-op": {"type": "marked-for-op", "op": "stop", "skew": 4},
    "offhour": {"type": "offhour", "offhour": 20, "tag": "downtime", "default_tz": "et"},
    "onhour": {"type": "onhour", "onhour": 8},
    "event": {"type": "event", "key": "detail.x", "op": "eq", "value": "y"},
}


def table_resources():
    """every resource type named in a table of the translator (string keys of dict literals / comparisons inside the rewriters)"""
    src = open(os.environ.get("VERIF_REPO", "/repo") + "/src/xlate/c7n_to_cel.py").read()
    tree = ast.parse(src)
    names = set()
    for n in ast.walk(tree):
        if isinstance(n, ast.Dict) and len(n.keys) > 2:
            for k in n.keys:
                if isinstance(k, ast.Constant) and isinstance(k.value, str) and k.value and k.value[0].islower() and " " not in k.value and "{" not in k.value:
                    names.add(k.value)
        if isinstance(n, ast.Compare):
            for c in [n.left] + list(n.comparators):
                if isinstance(c, ast.Constant) and isinstance(c.value, str) and c.value and c.value[0].islower() and " " not in c.value:
                    names.add(c.value)
                if isinstance(c, (ast.Tuple, ast.Set, ast.List)):
                    for e in c.elts:
                        if isinstance(e, ast.Constant) and isinstance(e.value, str):
                            names.add(e.value)
    return sorted(names)


def table_entries():
    out = []
    resources = table_resources()
    for fam, flt in SAMPLES.items():
        for res in resources:
            try:
                text = C7N_Rewriter.primitive(res, dict(flt))
            except (ValueError, KeyError):
                continue        # not an entry of this rewriter's table
            except Exception as ex:  # noqa: BLE001
                out.append((fam, res, None, "%s: %s" % (type(ex).__name__, ex)))
                continue
            out.append((fam, res, text, None))
    # de-duplicate entries whose text does not depend on the resource type
    seen, uniq = set(), []
    for fam, res, text, err in out:
        if (fam, text) in seen:
            continue
        seen.add((fam, text))
        uniq.append((fam, res, text, err))
    return uniq


def run(ctx: Ctx) -> int:
    q = ctx.quick
    events, index = [], []
    # ---- ops
    r = ctx.tlc("MC_C19", 'SPECIFICATION Spec\nCONSTANT FAMILY = "%s"\nINVARIANT Synonyms\nCHECK_DEADLOCK FALSE\n' % ("ops" if q else "opsL"), dump=True, name="ops x kinds x value_type x boundary resources")
    ops = [(s["case"], s["exp"]) for s in read_dump(r.dump) if s["case"].get("op") not in ("none",)]
    for (case, exp), (text, bad) in zip(ops, pmap(_replay_op, ops)):
        for sig, c in bad:
            ctx.disagree(sig, c)
        if text is not None:
            toks = tokenize(text)
            if toks is None:
                ctx.disagree("emitted value clause cannot be tokenised", {"cel": text})
            else:
                events.append({"kind": "parse", "toks": toks})
                index.append(("value clause op=%s value_type=%s" % (case["op"], case["vt"]), text))
    ctx.cov["replayed_op_cases"] = len(ops)
    # ---- present / absent
    r = ctx.tlc("MC_C19", 'SPECIFICATION Spec\nCONSTANT FAMILY = "presence"\nINVARIANT PresenceIsComplement\nCHECK_DEADLOCK FALSE\n', dump=True, name="present / absent x attribute states x key forms")
    pres = [(s["case"], s["exp"]) for s in read_dump(r.dump) if s["case"].get("op") == "presence"]
    for (case, exp), (text, bad) in zip(pres, pmap(_replay_presence, pres)):
        for sig, c in bad:
            ctx.disagree(sig, c)
        if text is not None and tokenize(text) is not None:
            events.append({"kind": "parse", "toks": tokenize(text)})
            index.append(("presence clause", text))
    ctx.cov["replayed_presence_cases"] = len(pres)
    ctx.sample({"case": ops[len(ops) // 2][0], "decision": ops[len(ops) // 2][1]})
    # ---- literals
    r = ctx.tlc("MC_C19", 'SPECIFICATION Spec\nCONSTANT FAMILY = "%s"\nINVARIANT Synonyms\nCHECK_DEADLOCK FALSE\n' % ("strings" if q else "strings4"), dump=True, name="policy strings")
    strings = [s_of(s["case"]["s"]) for s in read_dump(r.dump) if s["case"].get("op") == "literal"]
    rng = random.Random(ctx.seed)
    strings += ["".join(chr(rng.choice([rng.randint(32, 126), 34, 39, 92, 10, 13, 9, 0xe9, 0x1f431, 0x2028])) for _ in range(rng.randint(1, 12))) for _ in range(200 if q else 5000)]
    for s, (evs, bad) in zip(strings, pmap(_replay_literal, strings)):
        for sig, c in bad:
            ctx.disagree(sig, c)
        for e in evs:
            site = e.pop("site")
            events.append(e)
            index.append(("literal via %s" % site, s))
    ctx.cov["replayed_strings"] = len(strings)
    # ---- durations
    r = ctx.tlc("MC_C19", 'SPECIFICATION Spec\nCONSTANT FAMILY = "durations"\nINVARIANT Synonyms\nCHECK_DEADLOCK FALSE\n', dump=True, name="day / second counts")
    secs = sorted(set(s["case"]["secs"] for s in read_dump(r.dump) if s["case"].get("op") == "duration") | set(rng.randint(0, 10**7) for _ in range(100 if q else 3000)))
    for n, (evs, bad) in zip(secs, [_replay_duration(n) for n in secs]):
        for sig, c in bad:
            ctx.disagree(sig, c)
        for e in evs:
            site = e.pop("site")
            events.append(e)
            index.append(("duration via %s" % site, n))
    ctx.cov["replayed_durations"] = len(secs)
    # ---- tables
    entries = table_entries()
    for fam, res, text, err in entries:
        if err is not None:
            ctx.disagree("table entry (%s, %s): translator raises" % (fam, res), {"rewriter": fam, "resource": res, "error": err})
            continue
        toks = tokenize(text)
        if toks is None:
            ctx.disagree("table entry (%s, %s): cannot be tokenised" % (fam, res), {"rewriter": fam, "resource": res, "cel": text})
            continue
        events.append({"kind": "parse", "toks": toks})
        index.append(("table entry (%s, %s)" % (fam, res), text))
        # and the library's own parser must accept it
        o = celx.guarded(lambda: celx.env("I").compile(text), "compile")
        if o.kind != "val":
            ctx.disagree("table entry (%s, %s): the library's parser rejects it" % (fam, res), {"rewriter": fam, "resource": res, "cel": text})
    ctx.cov["table_entries"] = len(entries)
    ctx.sample({"table_entry": entries[0][:3]})
    # ---- TLC judges every emitted text
    tf = ctx.work / "trace.ndjson"
    write_ndjson(tf, events)
    tr = ctx.tlc("Trace_C19", "INIT Init\nNEXT Next\nPOSTCONDITION Post\nCHECK_DEADLOCK FALSE\n", workers=1, env={"TRACE_FILE": str(tf)}, name="validation of emitted texts")
    rej, cons = trace_verdict(tr.stdout, len(events))
    for idx, why in rej:
        what, item = index[idx - 1]
        detail = ""
        if what.startswith("literal"):
            s = item
            detail = " chars{%s}" % ",".join(sorted(set("quote" if c in "\"'" else "backslash" if c == "\\" else "control" if ord(c) < 32 else "nonascii" if ord(c) > 126 else "plain" for c in s) - {"plain"}))
        elif what.startswith("duration") and item == 0:
            detail = " (zero)"
        ctx.disagree("%s%s: %s [spec]" % (what, detail, why), {"what": what, "item": item, "why": why, "from": "trace"})
    ctx.cov["traces_validated_against_impl"] += len(events)
    ctx.cov["evaluations"] += len(events) + len(ops) + len(strings)
    ctx.cov["emitted_texts_validated"] = len(events)
    ctx.assumptions += ["value kinds: ints 0..3, strings over {a, b, A}, lists of strings; transforms size, integer, normalize, swap, unique_size, age, expiration",
                        "table entries are discovered from the translator's source (string keys of its dict tables) and exercised with one sample filter per rewriter",
                        "duration literals are read in the translator's dialect (units d h m s)"]
    return ctx.finish(rule="TLC enumerates (op, value_type, resource value, literal) on both sides of each comparison boundary with the decision the named relation "
                           "gives; the clause is translated by the real rewriter and evaluated by the real evaluator on the resource; policy strings, "
                           "day/second counts and every table entry are translated and TLC checks that the emitted literal decodes to the string, the "
                           "duration denotes the count, and the text parses. distinct = distinct cases",
                      extra={"distinct_nontrivial": len(ops) + len(strings) + len(secs) + len(entries)})


def replay(path):
    d = json.load(open(path))
    print(json.dumps(d["case"], default=str)[:600])
    return 1
