"""C11 timestamp / duration arithmetic and calendar accessors are exact.  Spec: CelTime.tla (through CelEval); model MC_C11."""
from __future__ import annotations

import random

from . import celx, evalx
from .c09 import L
from .core import Ctx, read_dump

INV = """INVARIANT CalendarBijection
INVARIANT KnownDates
INVARIANT AddSubLaws
INVARIANT DiffAntisymmetric
INVARIANT RangeChecked
INVARIANT SplitAgrees
INVARIANT FieldsInRange
CHECK_DEADLOCK FALSE
"""
ACC = ["getFullYear", "getMonth", "getDate", "getDayOfMonth", "getDayOfYear", "getDayOfWeek", "getHours", "getMinutes", "getSeconds", "getMilliseconds"]
ZONES = ["UTC", "Asia/Kolkata", "Asia/Tokyo", "Asia/Kathmandu", "America/Phoenix", "America/New_York", "Europe/Paris", "Australia/Sydney"]
TS_LO, TS_HI = -62135596800 * 10**6, 253402300799 * 10**6 + 999999
DUR = 315576000000 * 10**6


def run(ctx: Ctx) -> int:
    q = ctx.quick
    years = "{1, 1970, 2000, 2024, 9999}" if q else "{1, 4, 100, 400, 1600, 1900, 1970, 2000, 2023, 2024, 2100, 9999}"
    total = 0
    for fam in ("cal", "arith", "text", "acc"):
        r = ctx.tlc("MC_C11", 'SPECIFICATION Spec\nCONSTANTS FAMILY = "%s" YEARS = %s TIER = "%s"\n%s' % (fam, years, "quick" if q or fam != "acc" else "thorough", INV),
                    dump=(fam != "cal"), name="family " + fam)
        if fam == "cal":
            continue
        states = [s for s in read_dump(r.dump) if s["prog"]["k"] != "lit"]
        items = [(s["prog"], [], s["exp"]) for s in states]
        evalx.replay_states(ctx, items)
        total += len(items)
        ctx.cov["replayed_" + fam] = len(items)
        ctx.cov["indefinite_" + fam] = sum(1 for s in states if s["exp"]["t"] == "indef")
        for it in items[:: max(1, len(items) // 2)][:2]:
            ctx.sample({"cel": celx.render_ast(it[0])[:300], "expected": it[2]})
    # code -> spec: random microsecond-resolution instants, offsets, zones, durations
    rng = random.Random(ctx.seed)
    progs = []
    for _ in range(800 if q else 8000):
        k = rng.random()
        t = rng.randint(TS_LO, TS_HI)
        if k < 0.45:
            off = rng.randrange(-14 * 4, 14 * 4 + 1) * 15
            z = rng.choice([None, "%s%02d:%02d" % ("+" if off >= 0 else "-", abs(off) // 60, abs(off) % 60)] + ZONES[:5])
            if rng.random() < 0.25:
                z = rng.choice(ZONES[5:])
                y = rng.randint(1990, 2037)
                t = (celx.days_from_civil(y, rng.choice([1, 7]), rng.randint(3, 26)) * 86400 + rng.randint(0, 86399)) * 10**6 + rng.randint(0, 999999)
            args = [] if z is None else [L("string", z)]
            progs.append(({"k": "list", "xs": [{"k": "mcall", "x": L("timestamp", t), "f": f, "args": args} for f in ACC]}, []))
        elif k < 0.8:
            d = rng.choice([rng.randint(-DUR, DUR), rng.randint(-10**9, 10**9), rng.choice([-1, 1]) * 86400 * 10**6 * rng.randint(0, 400)])
            t2 = rng.randint(TS_LO, TS_HI)
            T, D = L("timestamp", t), L("duration", d)
            forms = [{"k": "bin", "op": "+", "l": T, "r": D}, {"k": "bin", "op": "-", "l": T, "r": D}, {"k": "bin", "op": "+", "l": D, "r": T},
                     {"k": "bin", "op": "-", "l": {"k": "bin", "op": "+", "l": T, "r": D}, "r": D}, {"k": "bin", "op": "-", "l": {"k": "bin", "op": "+", "l": T, "r": D}, "r": T},
                     {"k": "bin", "op": "-", "l": T, "r": L("timestamp", t2)}, {"k": "bin", "op": "+", "l": D, "r": L("duration", rng.randint(-DUR, DUR))},
                     {"k": "bin", "op": "-", "l": D, "r": L("duration", rng.randint(-DUR, DUR))}, {"k": "bin", "op": "<", "l": T, "r": L("timestamp", t2)}]
            progs.append((rng.choice(forms), []))
        else:
            parts = []
            for u in rng.sample(["h", "m", "s", "ms", "us", "ns"], rng.randint(1, 4)):
                n = rng.randint(0, 9999)
                frac = rng.choice(["", "", ".5", ".25", ".125"]) if u not in ("us", "ns") else ""
                if u == "ns":
                    n *= 1000
                parts.append("%d%s%s" % (n, frac, u))
            progs.append(({"k": "call", "f": "duration", "args": [L("string", rng.choice(["", "", "-", "+"]) + "".join(parts))]}, []))
    evalx.validate_trace(ctx, progs)
    ctx.assumptions += ["IANA zones are a hand-encoded table: five constant-offset zones, and three DST zones only at January / July instants (days 3..26) of 1990..2037",
                        "duration texts whose total is not a whole number of microseconds are indefinite (the implementation sums floats)"]
    return ctx.finish(rule="TLC enumerates month/year boundary instants (+-1 us, +-1 s) x fixed offsets and zones x the ten accessors, arithmetic over boundary instants "
                           "and durations with range errors, and duration texts assembled from components; calendar bijection / weekday cycle are model "
                           "invariants over a sweep of day numbers; random microsecond instants, offsets and durations go through Trace_Eval. "
                           "distinct = distinct programs (an accessor program carries ten calls)",
                      extra={"distinct_nontrivial": total + len(progs)})


def replay(path):
    return evalx.replay_file(path)
