"""Evaluation of the seeded changes kept under /verif/seeded/<property>/<name>/patch.diff.

    /venv/bin/python -m harness.seeded [--tier quick] [--jobs 3] [--only C01[/m1]] [--all-checks]

Every patch is applied to a scratch worktree of /repo under /tmp (removed afterwards); the property's own check runs against it
(VERIF_REPO / VERIF_OUT), and the verdict (caught = exit 1 with a VIOLATION line) is written to /verif/seeded/results.json.
Nothing here is a registered command."""
from __future__ import annotations

import argparse
import json
import os
import shutil
import subprocess
import sys
import time
from concurrent.futures import ThreadPoolExecutor
from pathlib import Path

ROOT = Path(__file__).resolve().parent.parent
SEEDED = ROOT / "seeded"
SCRATCH = Path("/tmp/seedrun")
SNAP = SCRATCH / "verif_snapshot"     # the checks run from a snapshot of /verif, so /verif can be edited meanwhile


def one(pid, name, tier, checks):
    tag = "%s_%s" % (pid, name)
    wt = SCRATCH / ("wt_" + tag)
    out = SCRATCH / ("out_" + tag)
    res = {"property": pid, "change": name, "checks": {}}
    subprocess.run(["git", "-C", "/repo", "worktree", "remove", "--force", str(wt)], capture_output=True)
    shutil.rmtree(wt, ignore_errors=True)
    shutil.rmtree(out, ignore_errors=True)
    p = subprocess.run(["git", "-C", "/repo", "worktree", "add", "-q", "--detach", str(wt), "HEAD"], capture_output=True, text=True)
    if p.returncode:
        res["error"] = p.stderr
        return res
    try:
        # the working tree of /repo may carry uncommitted changes: bring them over
        d = subprocess.run(["git", "-C", "/repo", "diff", "HEAD"], capture_output=True, text=True).stdout
        if d.strip():
            subprocess.run(["git", "-C", str(wt), "apply"], input=d, text=True)
        demo = SEEDED / pid / name / "demo.py"

        def run_demo():
            if not demo.exists():
                return None
            f = wt / "_seed_demo.py"
            f.write_text(demo.read_text().replace("/tmp/wt/%s" % pid, str(wt)))
            try:
                q = subprocess.run(["/venv/bin/python", str(f)], capture_output=True, text=True, timeout=300,
                                   env=dict(os.environ, PYTHONPATH=str(wt / "src")), cwd=str(wt))
            except subprocess.TimeoutExpired:
                return "demo timed out"
            finally:
                f.unlink()
            return (q.stdout + q.stderr[-2000:]).replace(str(wt), "WT")
        before = run_demo()
        p = subprocess.run(["git", "-C", str(wt), "apply", str(SEEDED / pid / name / "patch.diff")], capture_output=True, text=True)
        if p.returncode:
            res["error"] = "patch does not apply: " + p.stderr[:300]
            return res
        after = run_demo()
        res["demo_confirms"] = None if before is None else before != after
        t = subprocess.run(["/venv/bin/python", "-m", "pytest", "-q", "-p", "no:cacheprovider", "--timeout=900", "--continue-on-collection-errors"],
                           capture_output=True, text=True, env=dict(os.environ, PYTHONPATH=str(wt / "src")), cwd=str(wt))
        res["tests"] = (t.stdout.strip().splitlines() or ["?"])[-1]
        env = dict(os.environ, VERIF_REPO=str(wt), VERIF_OUT=str(out))
        for c in checks:
            t0 = time.time()
            p = subprocess.run([str(SNAP / "check"), c, tier], capture_output=True, text=True, env=env, cwd=str(SNAP))
            viol = [ln for ln in p.stdout.splitlines() if ln.startswith("VIOLATION")]
            sigs = [ln.strip()[:300] for ln in p.stdout.splitlines() if ln.startswith("  sig=")]
            res["checks"][c] = {"exit": p.returncode, "violations": len(viol), "caught": p.returncode == 1 and bool(viol),
                                "first": sigs[:3], "wall_s": round(time.time() - t0), "tail": [ln[:300] for ln in p.stdout.splitlines() if "MACHINERY" in ln or "Error" in ln or "rror:" in ln][:6] + p.stdout.splitlines()[-2:] if p.returncode not in (0, 1) else []}
    finally:
        subprocess.run(["git", "-C", "/repo", "worktree", "remove", "--force", str(wt)], capture_output=True)
        shutil.rmtree(wt, ignore_errors=True)
        shutil.rmtree(out, ignore_errors=True)
    return res


def main():
    ap = argparse.ArgumentParser()
    ap.add_argument("--tier", default="quick")
    ap.add_argument("--jobs", type=int, default=3)
    ap.add_argument("--only", default="")
    ap.add_argument("--also", default="", help="comma separated further checks to run on every change")
    a = ap.parse_args()
    SCRATCH.mkdir(parents=True, exist_ok=True)
    shutil.rmtree(SNAP, ignore_errors=True)
    SNAP.mkdir(parents=True)
    for name in ("check", "harness", "specs", "known_findings.json", ".build"):
        src = ROOT / name
        if src.is_dir():
            shutil.copytree(src, SNAP / name, ignore=shutil.ignore_patterns("__pycache__"))
        elif src.exists():
            shutil.copy2(src, SNAP / name)
    work = []
    for pd in sorted(SEEDED.iterdir()):
        if not pd.is_dir():
            continue
        for md in sorted(pd.iterdir()):
            if (md / "patch.diff").exists():
                key = "%s/%s" % (pd.name, md.name)
                if a.only and not any(key == o or pd.name == o for o in a.only.split(",")):
                    continue
                work.append((pd.name, md.name))
    rfile = SEEDED / "results.json"
    results = json.loads(rfile.read_text()) if rfile.exists() else {}
    with ThreadPoolExecutor(a.jobs) as ex:
        futs = [ex.submit(one, pid, name, a.tier, [pid] + [c for c in a.also.split(",") if c and c != pid]) for pid, name in work]
        for f in futs:
            r = f.result()
            key = "%s/%s" % (r["property"], r["change"])
            prev = results.get(key, {"checks": {}})
            prev.setdefault("checks", {}).update({"%s:%s" % (c, a.tier): v for c, v in r["checks"].items()})
            if "error" in r:
                prev["error"] = r["error"]
            prev["demo_confirms"] = r.get("demo_confirms")
            prev["tests"] = r.get("tests")
            results[key] = prev
            own = r["checks"].get(r["property"], {})
            print(key, "CAUGHT" if own.get("caught") else "MISSED", own.get("exit"), "demo_confirms=%s" % r.get("demo_confirms"), r.get("tests"), [x[:160] for x in own.get("first", [])[:1]], r.get("error", ""), flush=True)
            rfile.write_text(json.dumps(results, indent=1, sort_keys=True) + "\n")
    shutil.rmtree(SCRATCH, ignore_errors=True)


if __name__ == "__main__":
    sys.exit(main())
