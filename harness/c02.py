"""C02 logical operators absorb errors commutatively; conditionals are lazy.  Spec: CelLogic.tla."""
from __future__ import annotations

import json
import random

from . import celx
from .celx import ct
from .core import Ctx, read_dump, write_ndjson, trace_verdict, pmap

INV = """INVARIANT Commutative
INVARIANT DeMorgan
INVARIANT Deciding
INVARIANT BoolOrErrorTable
INVARIANT TwoNonBooleans
INVARIANT Lazy
INVARIANT NotError
INVARIANT FoldDecides
CHECK_DEADLOCK FALSE
"""
E_PALETTE = ["(1/0 == 1)", "(9223372036854775807 + 1 > 0)", "([true][5])", '({"a": true}["b"])', "undeclared_var",
             "unknown_fn(1)", '(int("x") == 1)', '(1 < "a")', "(1 % 0 == 0)", "(-(-9223372036854775807 - 1) == 1)",
             '("a".matches("("))', "(0u - 1u == 0u)", "[1, 2].exists(z, z / 0 == 1)",
             # failures raised by the libraries underneath (exception classes of pendulum / codecs, not the built-in ones)
             '(timestamp("x") == timestamp("x"))', '(string(b"\\xff") == "a")', '(duration("1x") == duration("1s"))',
             '(timestamp("9999-12-31T23:59:59Z") + duration("1s") == timestamp("0001-01-01T00:00:00Z"))', '({"a": 1}.b == 1)', '(double("1e") == 1.0)',
             '(timestamp("2023-02-30T00:00:00Z").getFullYear() == 2023)', '(bool("maybe"))']
T_PALETTE = ["true", "(1 == 1)", "tt", '("a" in ["a"])']
F_PALETTE = ["false", "(1 == 2)", "ff", "!true"]
N1 = ["1", "[true]"]
N2 = ['"s"', "null"]
BIND = {"tt": ct.BoolType(True), "ff": ct.BoolType(False)}


class Render:
    def __init__(self, rot):
        self.rot = rot
        self.n = 0

    def leaf(self, c):
        self.n += 1
        k = self.rot + self.n
        if c == "T":
            return T_PALETTE[k % len(T_PALETTE)]
        if c == "F":
            return F_PALETTE[k % len(F_PALETTE)]
        if c == "E":
            return E_PALETTE[k % len(E_PALETTE)]
        if c == "N1":
            return N1[self.rot % 2]
        return N2[self.rot % 2]

    def text(self, p):
        k = p["k"]
        if k in ("T", "F", "E", "N1", "N2"):
            return self.leaf(k)
        if k == "and":
            return "(%s && %s)" % (self.text(p["a"]), self.text(p["b"]))
        if k == "or":
            return "(%s || %s)" % (self.text(p["a"]), self.text(p["b"]))
        if k == "not":
            return "(!%s)" % self.text(p["a"])
        if k == "cond":
            return "(%s ? %s : %s)" % (self.text(p["c"]), self.text(p["a"]), self.text(p["b"]))
        if k in ("all", "exists"):
            s = p["s"]
            if not s:
                return "[].%s(x, %s)" % (k, self.leaf("E"))   # never evaluated
            body = self.leaf(s[-1])
            for j in range(len(s) - 2, -1, -1):
                body = "(x == %d ? %s : %s)" % (j, self.leaf(s[j]), body)
            return "[%s].%s(x, %s)" % (", ".join(str(j) for j in range(len(s))), k, body)
        raise ValueError(p)


def classify(o, rot):
    if o.kind == "err":
        return "E"
    if o.kind != "val":
        return "X:%s@%s" % (o.get("cls", o.kind), o.get("phase", ""))
    v = celx.project(o["v"])
    if v["t"] == "bool":
        return "T" if v["v"] else "F"
    want1 = {"t": "int", "v": 1} if rot % 2 == 0 else {"t": "list", "v": [{"t": "bool", "v": True}]}
    want2 = {"t": "string", "v": "s"} if rot % 2 == 0 else {"t": "null"}
    if celx.same(celx.strip_py(v), want1):
        return "N1"
    if celx.same(celx.strip_py(v), want2):
        return "N2"
    return "V:" + v["t"]


def shape(p):
    k = p["k"]
    if k in ("and", "or"):
        return "%s(%s,%s)" % (k, shape(p["a"]) if p["a"]["k"] in ("T", "F", "E", "N1", "N2") else "_", shape(p["b"]) if p["b"]["k"] in ("T", "F", "E", "N1", "N2") else "_")
    if k == "cond":
        return "cond"
    if k in ("all", "exists"):
        return k
    return k


def _replay(item):
    p, exp, rot = item
    bad = []
    n = 0
    for r in ("I", "C"):
        text = Render(rot).text(p)
        got = classify(celx.run(text, BIND, r), rot)
        n += 1
        if exp != "I" and got != exp:
            bad.append(("%s runner=%s exp=%s got=%s" % (shape(p), r, exp, got.split(":")[0] if got[0] in "XV" else got),
                        {"prog": p, "cel": text, "runner": r, "expected": exp, "observed": got, "rot": rot}))
    return n, bad


def rand_prog(rng, depth):
    if depth == 0 or rng.random() < 0.25:
        return {"k": rng.choice(["T", "F", "E", "T", "F", "E", "N1", "N2"])}
    k = rng.choice(["and", "or", "and", "or", "not", "cond", "macro"])
    if k in ("and", "or"):
        return {"k": k, "a": rand_prog(rng, depth - 1), "b": rand_prog(rng, depth - 1)}
    if k == "not":
        return {"k": k, "a": rand_prog(rng, depth - 1)}
    if k == "cond":
        return {"k": k, "c": rand_prog(rng, depth - 1), "a": rand_prog(rng, depth - 1), "b": rand_prog(rng, depth - 1)}
    return {"k": rng.choice(["all", "exists"]), "s": [rng.choice(["T", "F", "E", "N1"]) for _ in range(rng.randint(0, 5))]}


def _observe(item):
    p, rot = item
    text = Render(rot).text(p)
    return [(r, text, classify(celx.run(text, BIND, r), rot)) for r in ("I", "C")]


def direct_tables(ctx):
    """celtypes.logical_* on BoolType / CELEvalError objects / non-booleans against the spec tables (computed by TLC:
    the 2-operand states of the dump carry the expected class)."""
    vals = {"T": ct.BoolType(True), "F": ct.BoolType(False), "E": celx.CELEvalError("boom"), "N1": ct.IntType(1), "N2": ct.StringType("s")}

    def cls(fn):
        try:
            v = fn()
        except TypeError:
            return "E"
        except Exception as ex:  # noqa: BLE001
            return "X:" + type(ex).__name__
        if isinstance(v, celx.CELEvalError):
            return "E"
        if isinstance(v, ct.BoolType):
            return "T" if v else "F"
        if v is vals["N1"]:
            return "N1"
        if v is vals["N2"]:
            return "N2"
        return "V"
    return vals, cls


def run(ctx: Ctx) -> int:
    q = ctx.quick
    size, ln = (4, 3) if q else (5, 3)        # (size 6, or element lists of 4, run to millions of programs: beyond what the replay can hold)
    r = ctx.tlc("MC_C02", "SPECIFICATION Spec\nCONSTANTS SIZE = %d LEN = %d\n%s" % (size, ln, INV), dump=True,
                name="all nestings up to size %d, element lists up to %d" % (size, ln))
    states = read_dump(r.dump)
    items = [(s["e"], s["exp"], i % 26) for i, s in enumerate(states)]
    if not q and len(items) > 400000:
        # replay every program of size <= 4 and a sample of size 5 (all are model-checked)
        def sz(p):
            return 1 + sum(sz(v) for v in p.values() if isinstance(v, dict))
        k = max(2, len(items) // 300000)
        items = [it for j, it in enumerate(items) if sz(it[0]) <= 4 or j % k == 0]
        ctx.cov["replay_note"] = "size-5 programs replayed 1 in %d; all sizes <= 4 replayed" % k
    nev = 0
    for n, bad in pmap(_replay, items):
        nev += n
        for sig, case in bad:
            ctx.disagree(sig, case)
    ctx.cov["traces_validated_against_impl"] += len(items)
    ctx.cov["evaluations"] += nev
    ctx.cov["replayed_states"] = len(items)
    ctx.cov["indefinite_states"] = sum(1 for it in items if it[1] == "I")
    for it in items[:: max(1, len(items) // 4)][:4]:
        ctx.sample({"program": it[0], "cel": Render(it[2]).text(it[0]), "expected": it[1]})
    # direct: celtypes.logical_and / logical_or / logical_not / logical_condition
    vals, cls = direct_tables(ctx)
    two = {}
    for s in states:
        e = s["e"]
        if e["k"] in ("and", "or") and "k" in e["a"] and e["a"]["k"] in vals and e["b"]["k"] in vals:
            two[(e["k"], e["a"]["k"], e["b"]["k"])] = s["exp"]
        if e["k"] == "not" and e["a"]["k"] in vals:
            two[("not", e["a"]["k"], None)] = s["exp"]
        if e["k"] == "cond" and all(e[x]["k"] in vals for x in "cab"):
            two[("cond", e["c"]["k"], (e["a"]["k"], e["b"]["k"]))] = s["exp"]
    for (k, a, b), exp in sorted(two.items(), key=str):
        if k == "and":
            got = cls(lambda: ct.logical_and(vals[a], vals[b]))
        elif k == "or":
            got = cls(lambda: ct.logical_or(vals[a], vals[b]))
        elif k == "not":
            got = cls(lambda: ct.logical_not(vals[a]))
        else:
            got = cls(lambda: ct.logical_condition(vals[a], vals[b[0]], vals[b[1]]))
        ctx.cov["evaluations"] += 1
        if exp != "I" and got != exp:
            ctx.disagree("celtypes.logical_%s(%s,%s) exp=%s got=%s" % (k, a, b, exp, got), {"fn": k, "a": a, "b": b, "expected": exp, "observed": got})
    ctx.cov["direct_table_entries"] = len(two)
    # code -> spec: random deep programs validated by TLC
    rng = random.Random(ctx.seed)
    progs = [(rand_prog(rng, rng.randint(2, 6)), rng.randint(0, 25)) for _ in range(1500 if q else 40000)]
    obs = pmap(_observe, progs)
    lines, index = [], []
    for (p, rot), res in zip(progs, obs):
        for rr, text, got in res:
            lines.append({"prog": p, "out": got})
            index.append((p, rot, rr, text, got))
    tf = ctx.work / "trace.ndjson"
    write_ndjson(tf, lines)
    tr = ctx.tlc("Trace_C02", "INIT Init\nNEXT Next\nPOSTCONDITION Post\nCHECK_DEADLOCK FALSE\n", workers=1,
                 env={"TRACE_FILE": str(tf)}, name="trace validation")
    rej, cons = trace_verdict(tr.stdout, len(lines))
    for idx, exp in rej:
        p, rot, rr, text, got = index[idx - 1]
        ctx.disagree("%s runner=%s exp=%s got=%s" % (shape(p), rr, exp, got.split(":")[0] if got[0] in "XV" else got),
                     {"prog": p, "cel": text, "runner": rr, "expected": exp, "observed": got, "rot": rot, "from": "trace"})
    ctx.cov["traces_validated_against_impl"] += len(lines)
    ctx.cov["evaluations"] += len(lines)
    ctx.cov["trace_events"] = len(lines)
    ctx.cov["trace_events_indefinite"] = cons[3]
    ctx.assumptions += ["outcomes the statement does not fix (true && 1, error && 1, !1) are marked indefinite in the spec and not compared",
                        "error leaves are realised by a palette of 21 failing sub-expressions in rotation, not by every conceivable failure"]
    return ctx.finish(rule="TLC enumerates every linear nesting of && || ! ?: over leaf classes {T,F,E,N1,N2} up to the size bound and every "
                           "element-outcome list for all()/exists(); each is rendered to CEL (leaf palette in rotation) and evaluated under both "
                           "runners; random non-linear programs are validated by Trace_C02. distinct = distinct programs",
                      extra={"distinct_nontrivial": len(items) + len(set(json.dumps(p) for p, _ in progs))})


def replay(path):
    d = json.load(open(path))
    c = d["case"]
    if "prog" not in c:
        print("direct-table case:", c)
        return 1
    n, bad = _replay((c["prog"], c["expected"], c["rot"]))
    for sig, case in bad:
        print(sig, json.dumps(case))
    return 1 if bad else 0
