"""XREPL (growth beyond the listed properties): the interactive loop `celpy -i`.  Spec: CelRepl.tla; model MC_XREPL; trace Trace_XREPL.

Spec -> code: every maximal behaviour of MC_XREPL (command sequences up to DEPTH) is typed into the real CEL_REPL (cmd.Cmd.cmdloop on a
script) and after EVERY command the printed text and the activation are compared with the behaviour's recorded output / state.
Code -> spec: random longer sessions are run, recorded per command, and judged by TLC (Trace_XREPL).
Not registered under a property in MANIFEST.json (none of the twenty statements speaks about the interactive mode); `./check XREPL quick`."""
from __future__ import annotations

import io
import json
import logging
import random
import sys

from . import celx
from .core import Ctx, read_dump, write_ndjson, trace_verdict, pmap
import celpy.__main__ as cli

CFG = ("SPECIFICATION Spec\nCONSTANT DEPTH = %d\nINVARIANT NamesUnique\nINVARIANT OnlyValues\nINVARIANT Functional\nINVARIANT ShowIsPure\n"
       "PROPERTY OnlySetWrites\nPROPERTY Stopped\nCHECK_DEADLOCK FALSE\n")
BAD_SYNTAX = ["1 +", "a b", "(a", "[1, ", "a ? 1"]


def expr_text(e, j=0):
    if e["k"] == "badsyntax":
        return BAD_SYNTAX[j % len(BAD_SYNTAX)]
    if e["k"] == "noexpr":
        return ""
    return celx.render_ast(e)


def cmd_text(c, j=0):
    k = c["c"]
    if k == "set":
        t = expr_text(c["e"], j)
        return ("set %s %s" % (c["n"], t)) if t else "set " + c["n"]
    if k == "expr":
        return expr_text(c["e"], j)
    if k == "show":
        return "show"
    if k == "empty":
        return ""
    if k == "quit":
        return c["w"]
    raise ValueError(c)


class Probe(cli.CEL_REPL):
    """the real loop, observed after each command (cmd.Cmd's own postcmd hook)"""

    def __init__(self, script, out):
        super().__init__(stdin=io.StringIO(script), stdout=io.StringIO())
        self.use_rawinput = False
        self.records = []
        self._out = out

    def postcmd(self, stop, line):
        text = self._out.getvalue()
        self._out.seek(0)
        self._out.truncate()
        self.records.append({"line": line, "printed": text, "state": [[n, celx.project(v)] for n, v in self.state.items()],
                             "stop": bool(stop)})
        return stop


def run_session(lines):
    """-> (records, escaped exception or None)"""
    out = io.StringIO()
    old = sys.stdout
    sys.stdout = out
    lg = logging.getLogger("celpy.repl")
    keep = lg.propagate, lg.level
    lg.propagate = False
    lg.setLevel(logging.CRITICAL + 1)
    p = Probe("".join(ln + "\n" for ln in lines), out)
    exc = None
    try:
        p.cmdloop(intro="")
    except BaseException as ex:  # noqa: BLE001
        exc = type(ex).__name__ + ": " + str(ex)[:100]
    finally:
        sys.stdout = old
        lg.propagate, lg.level = keep
    return p.records, exc


def printed_of(exp_abs):
    """what `print(value)` shows for a value the specification gives"""
    return str(celx.to_cel(exp_abs)) + "\n"


def state_ok(exp_st, got_st):
    if len(exp_st) != len(got_st):
        return False
    for (n, w), (m, g) in zip(exp_st, got_st):
        if n != m or not celx.same(celx.dec(w), celx.strip_py(g)):
            return False
    return True


def judge(hist, records, exc, j):
    """compare one behaviour with the session's records -> list of (sig, detail)"""
    bad = []
    if exc:
        return [("an exception leaves the loop", {"exc": exc})]
    n_exp = len(hist)
    if len(records) < n_exp:
        return [("the loop stopped early", {"records": len(records), "commands": n_exp})]
    for i, h in enumerate(hist):
        r = records[i]
        c, o = h["cmd"], h["out"]
        kind = c["c"] + ("(%s)" % (c["e"]["k"] if c["e"]["k"] in ("badsyntax", "noexpr") else "e") if "e" in c else "")
        if o["o"] == "indef":
            break
        if not state_ok(h["st"], r["state"]):
            bad.append(("activation after %s differs" % kind, {"step": i, "expected": h["st"], "got": r["state"]}))
            break
        if o["o"] == "value":
            want = printed_of(celx.dec(o["v"]))
            if r["printed"] != want:
                bad.append(("printed value of %s differs" % kind, {"step": i, "expected": want, "got": r["printed"]}))
        elif o["o"] == "nothing":
            if r["printed"] != "":
                bad.append(("%s prints although it has no value" % kind, {"step": i, "got": r["printed"]}))
        elif o["o"] == "state":
            # the text of `show` is Python's rendering of the activation: every name must appear, in order of first assignment
            pos = [r["printed"].find(repr(n)) for n, _ in h["st"]]
            if any(p < 0 for p in pos) or pos != sorted(pos):
                bad.append(("show does not list the activation in order", {"step": i, "expected": [n for n, _ in h["st"]], "got": r["printed"]}))
        if c["c"] == "quit":
            if not r["stop"]:
                bad.append(("%s does not end the loop" % c["w"], {"step": i}))
            if len(records) != i + 1:
                bad.append(("commands are read after %s" % c["w"], {"step": i, "records": len(records)}))
        elif r["stop"]:
            bad.append(("%s ends the loop" % kind, {"step": i}))
    return bad


def _replay(item):
    hist, j = item
    lines = [cmd_text(h["cmd"], j + i) for i, h in enumerate(hist)]
    ended = hist and hist[-1]["cmd"]["c"] == "quit"
    # whatever follows a quit must not be read; otherwise end the script (EOF ends the loop)
    script = lines + (["set a 99", "show"] if ended else [])
    records, exc = run_session(script)
    bad = judge(hist, records[: len(hist)] if not ended else records, exc, j)
    return [(s, dict(d, script=script)) for s, d in bad]


# ---- code -> spec
def _random_session(item):
    seed, length = item
    rng = random.Random(seed)
    from .c09 import L
    a, b, c3 = ({"k": "var", "n": n} for n in ("a", "b", "c"))
    exprs = [L("int", 1), L("int", -7), L("string", "s"), L("string", ""), L("bool", True), a, b, c3,
             {"k": "bin", "op": "+", "l": a, "r": L("int", 1)}, {"k": "bin", "op": "+", "l": a, "r": b}, {"k": "bin", "op": "*", "l": a, "r": a},
             {"k": "list", "xs": [a, b]}, {"k": "list", "xs": []}, {"k": "call", "f": "size", "args": [c3]},
             {"k": "bin", "op": "/", "l": L("int", 1), "r": L("int", 0)}, {"k": "bin", "op": "==", "l": a, "r": a},
             {"k": "cond", "c": L("bool", False), "a": a, "b": b}, {"k": "badsyntax"},
             {"k": "bin", "op": "+", "l": L("int", 9223372036854775807), "r": a}]
    cmds = []
    for _ in range(length):
        k = rng.random()
        if k < 0.45:
            e = rng.choice(exprs + [{"k": "noexpr"}])
            cmds.append({"c": "set", "n": rng.choice("abc"), "e": e})
        elif k < 0.75:
            cmds.append({"c": "expr", "e": rng.choice(exprs)})
        elif k < 0.85:
            cmds.append({"c": "show"})
        elif k < 0.97:
            cmds.append({"c": "empty"})
        else:
            cmds.append({"c": "quit", "w": rng.choice(["quit", "exit", "bye", "EOF"])})
    cmds.append({"c": "quit", "w": "EOF"})        # the end of the script, made explicit
    lines = [cmd_text(c, seed + i) for i, c in enumerate(cmds)]
    records, exc = run_session(lines)
    steps = []
    for c, r in zip(cmds, records):
        printed = r["printed"]
        steps.append({"cmd": c, "printed": [ord(ch) for ch in printed], "st": [[n, celx.enc(celx.strip_py(v))] for n, v in r["state"]], "stop": r["stop"]})
    return {"steps": steps, "ncmds": len(cmds), "nrec": len(records), "exc": exc or ""}, lines


def run(ctx: Ctx) -> int:
    q = ctx.quick
    depth = 3 if q else 4
    r = ctx.tlc("MC_XREPL", CFG % depth, dump=True, name="interactive loop, command sequences up to %d" % depth)
    states = read_dump(r.dump)

    def maximal(s):
        h = s["hist"]
        return h and (len(h) == depth or not s["alive"] or s["out"]["o"] == "indef")
    hists = [s["hist"] for s in states if maximal(s)]
    if not q:
        hists = hists[:: max(1, len(hists) // 150000)]
    n = 0
    for bad in pmap(_replay, [(h, j) for j, h in enumerate(hists)]):
        n += 1
        for sig, case in bad:
            ctx.disagree(sig, case)
    ctx.cov["traces_validated_against_impl"] += len(hists)
    ctx.cov["evaluations"] += sum(len(h) for h in hists)
    ctx.sample({"script": [cmd_text(h["cmd"]) for h in hists[len(hists) // 2]], "final_state": hists[len(hists) // 2][-1]["st"]})
    # the real entry point: main(["-i"]) reading the script from stdin
    from .c20 import run_main
    for h in hists[:: max(1, len(hists) // (40 if q else 400))]:
        script = "".join(cmd_text(x["cmd"]) + "\n" for x in h)
        status, out, err = run_main(["-i"], script)
        want = "".join(printed_of(celx.dec(x["out"]["v"])) for x in h if x["out"]["o"] == "value")
        got = out.replace("CEL> ", "")
        if any(x["out"]["o"] in ("indef", "state") for x in h):
            continue
        if status != 0 or want.strip() not in got:
            ctx.disagree("celpy -i: output or status differs", {"script": script, "status": status, "stdout": out, "expected_values": want})
    # code -> spec
    sessions = pmap(_random_session, [(ctx.seed + k, 12) for k in range(120 if q else 4000)])
    events = [ev for ev, _ in sessions]
    tf = ctx.work / "trace.ndjson"
    write_ndjson(tf, events)
    tr = ctx.tlc("Trace_XREPL", "INIT Init\nNEXT Next\nPOSTCONDITION Post\nCHECK_DEADLOCK FALSE\n", workers=1, env={"TRACE_FILE": str(tf)},
                 name="trace validation (random sessions)")
    rej, cons = trace_verdict(tr.stdout, len(events))
    for idx, why in rej:
        ev, lines = sessions[idx - 1]
        ctx.disagree("random session: %s" % why, {"script": lines, "why": why, "from": "trace"})
    ctx.cov["traces_validated_against_impl"] += len(events)
    ctx.cov["evaluations"] += sum(len(ev["steps"]) for ev in events)
    ctx.assumptions += ["the text printed for a value is str() of the library's own object for that value (the statement of what `print` shows is the library's)",
                        "expressions whose first character is ! or ? are not typed into the loop (cmd.Cmd treats them as shell / help requests)"]
    return ctx.finish(rule="TLC enumerates every command sequence of the interactive loop up to DEPTH (set / expression / show / empty line / quit spellings; "
                           "values, references, evaluation errors, syntax errors, missing expressions); invariants NamesUnique, OnlyValues, Functional, "
                           "ShowIsPure and action properties OnlySetWrites, Stopped hold on the model; every maximal behaviour is typed into CEL_REPL and compared after "
                           "each command; random 12-command sessions are judged by Trace_XREPL",
                      extra={"distinct_nontrivial": len(hists) + len(events)})


def replay(path):
    d = json.load(open(path))
    c = d["case"]
    if "script" in c:
        script = c["script"] if isinstance(c["script"], list) else c["script"].splitlines()
        recs, exc = run_session(script)
        for r in recs:
            print(repr(r["line"]), "->", repr(r["printed"]), r["state"])
        print("exception:", exc)
    return 1
