"""C01 numeric operators are exact.  Spec: CelArith.tla; models MC_C01 / MC_C01D; trace spec Trace_C01."""
from __future__ import annotations

import json
import math
import random

from . import celx
from .celx import ct
from .core import Ctx, big, read_dump, unbig, write_ndjson, trace_verdict, pmap

INV = """INVARIANT InRangeOrError
INVARIANT OkIffFits
INVARIANT DivLaw
INVARIANT Commute
INVARIANT SubIsAddNeg
INVARIANT NegLaw
INVARIANT NegNegLaw
INVARIANT UintNegIsError
INVARIANT NativeAgrees
CHECK_DEADLOCK FALSE
"""
INVD = """SPECIFICATION Spec
INVARIANT Commute
INVARIANT SubIsAddNeg
INVARIANT NaNPropagates
INVARIANT DivByZero
INVARIANT NegInvolution
INVARIANT MulSign
INVARIANT Representable
CHECK_DEADLOCK FALSE
"""
PYOPS = {"+": lambda x, y: x + y, "-": lambda x, y: x - y, "*": lambda x, y: x * y,
         "/": lambda x, y: x / y, "%": lambda x, y: x % y}
DIRECT_ERRS = (ValueError, ZeroDivisionError, OverflowError, TypeError, celx.CELEvalError)
CLS = {"int": ct.IntType, "uint": ct.UintType, "double": ct.DoubleType}
NATIVE = {"int": int, "uint": int, "double": float}


def direct(fn):
    try:
        v = fn()
    except DIRECT_ERRS:
        return {"t": "err"}
    except Exception as ex:  # noqa: BLE001
        return {"t": "exc", "cls": type(ex).__name__}
    if isinstance(v, celx.CELEvalError):
        return {"t": "err"}
    return celx.project(v)


def dclass(x):
    if x.get("t") != "double":
        return x.get("t")
    v = x["v"]
    if math.isnan(v):
        return "nan"
    s = "-" if math.copysign(1, v) < 0 else "+"
    return ("inf" if math.isinf(v) else "zero" if v == 0 else "fin") + s


def observe(ty, op, a, b):
    """All paths for one case -> {path: abstract outcome}.  a, b python numbers."""
    C, N = CLS[ty], NATIVE[ty]
    out = {}
    if op == "neg":
        out["direct"] = direct(lambda: -C(a))
        text = "-(%s)" % celx.lit({"t": ty, "v": a})
        vtext = "-x"
    elif op == "negneg":
        out["direct"] = direct(lambda: -(-C(a)))
        text = "- -(%s)" % celx.lit({"t": ty, "v": a})
        vtext = "- -x"
    else:
        f = PYOPS[op]
        out["direct"] = direct(lambda: f(C(a), C(b)))
        out["reflected"] = direct(lambda: f(N(a), C(b)))
        text = "%s %s %s" % (celx.lit({"t": ty, "v": a}), op, celx.lit({"t": ty, "v": b}))
        vtext = "x %s y" % op
    finite = ty != "double" or all(v is None or math.isfinite(v) for v in (a, b))
    htext = None
    if ty in ("int", "uint") and op not in ("neg", "negneg"):
        # the same operands spelled in hexadecimal
        def hx(v):
            return ("-" if v < 0 else "") + "0x%X" % abs(v) + ("u" if ty == "uint" else "")
        htext = "%s %s %s" % (hx(a), op, hx(b))
    for r in ("I", "C"):
        if htext is not None:
            out["hex" + r] = celx.outcome_abs(celx.run(htext, {}, r))
        if finite:      # non-finite doubles have no literal spelling: bound variables only
            out["expr" + r] = celx.outcome_abs(celx.run(text, {}, r))
        out["vars" + r] = celx.outcome_abs(celx.run(vtext, {"x": C(a), "y": C(b) if b is not None else None}, r))
    return out, text


def agrees(ty, exp, got):
    if exp["t"] == "indef":
        return True
    if exp["t"] == "err":
        return got["t"] == "err"
    if got["t"] != ty:
        return False
    return celx.same({"t": ty, "v": exp["v"]}, got)


def sig_of(ty, op, a, b, path, exp, got):
    if ty == "double":
        oc = "a=%s b=%s" % (dclass({"t": "double", "v": a}), dclass({"t": "double", "v": b}) if b is not None else "-")
        return "double %s %s exp=%s got=%s %s" % (op, oc, dclass(exp), dclass(got), "runner" if path[:4] in ("expr", "vars") or path[:3] == "hex" else path)
    return "%s %s exp=%s got=%s %s" % (ty, op, "err" if exp["t"] == "err" else "val",
                                       got["t"] if got["t"] in ("err", "exc") else "val",
                                       "runner" if path[:4] in ("expr", "vars") or path[:3] == "hex" else path)


def _replay_case(case):
    ty, op, a, b, exp = case
    obs, text = observe(ty, op, a, b)
    bad = []
    for path, got in obs.items():
        if not agrees(ty, exp, got):
            bad.append((sig_of(ty, op, a, b, path, exp, got),
                        {"ty": ty, "op": op, "a": repr(a), "b": repr(b), "path": path, "cel": text,
                         "expected": exp, "observed": got}))
    return len(obs), bad


def state_case(st):
    ty = st["ty"] if "ty" in st else "double"
    if ty == "double":
        a, b = celx.undyadic(st["a"]), celx.undyadic(st["b"])
        e = st["exp"]
        exp = {"t": "indef"} if e["t"] == "indef" else {"t": "double", "v": celx.undyadic(e)}
    else:
        a, b = unbig(st["a"]), unbig(st["b"])
        e = st["exp"]
        exp = {"t": "err"} if e["t"] == "err" else {"t": ty, "v": unbig(e)}
    op = st["op"]
    return (ty, op, a, None if op in ("neg", "negneg") else b, exp)


def gen_random(rng: random.Random, n: int):
    """Random operand events of the implementation (code -> spec direction)."""
    evs = []

    def r64(ty):
        lo, hi = (-(2**63), 2**63 - 1) if ty == "int" else (0, 2**64 - 1)
        k = rng.random()
        if k < 0.4:
            v = rng.randint(lo, hi)
        elif k < 0.7:
            v = (1 << rng.randint(0, 64)) * rng.choice([1, -1]) + rng.randint(-3, 3)
        elif k < 0.85:
            v = rng.randint(-(2**32), 2**32)
        else:
            v = rng.randint(-20, 20)
        return min(hi, max(lo, v))

    def rdbl():
        k = rng.random()
        if k < 0.1:
            return rng.choice([math.nan, math.inf, -math.inf, 0.0, -0.0])
        m = rng.randint(1, 2**rng.choice([3, 10, 20, 26])) * rng.choice([1, -1])
        return math.ldexp(float(m), rng.randint(-40, 40) if k < 0.9 else rng.choice([-1074, -1060, 990, 960]))

    for _ in range(n):
        ty = rng.choice(["int", "int", "uint", "uint", "double"])
        op = rng.choice(["+", "-", "*", "/", "%", "neg"] if ty != "double" else ["+", "-", "*", "/", "neg"])
        if ty == "double":
            a, b = rdbl(), rdbl()
        else:
            a, b = r64(ty), r64(ty)
            if op == "*" and rng.random() < 0.5:      # products near the range boundary
                lim = 2**63 if ty == "int" else 2**64
                a = a or 1
                b = lim // abs(a) + rng.randint(-1, 1)
                b = min(2**63 - 1 if ty == "int" else 2**64 - 1, max(-(2**63) if ty == "int" else 0, b))
            if op in "/%" and rng.random() < 0.05:
                b = 0
        evs.append((ty, op, a, None if op == "neg" else b))
    return evs


def _observe_event(ev):
    ty, op, a, b = ev
    obs, text = observe(ty, op, a, b)
    return obs, text


def enc_num(ty, v):
    if v is None:
        return {"neg": False, "m": [], "c": "zero", "e": 0}
    return celx.dyadic(v) if ty == "double" else big(v)


def enc_out(ty, got):
    if got["t"] == "err":
        return {"t": "err"}
    if got["t"] == "double":
        return {"t": "double", **celx.dyadic(got["v"])}
    if got["t"] in ("int", "uint"):
        return {"t": got["t"], **big(got["v"])}
    return {"t": "other:" + got["t"], "neg": False, "m": []}


def run(ctx: Ctx) -> int:
    q = ctx.quick
    # 1. the oracle validates itself: ALL pairs at a small width against TLC's native integers
    w = 5 if q else 7
    ctx.tlc("MC_C01", 'SPECIFICATION Spec\nCONSTANTS MODE = "small" W = %d K = 0 Ks = {}\n%s' % (w, INV),
            name="small-width exhaustive W=%d" % w)
    # 2. W = 64 boundary pool x operators, dumped and replayed into the implementation
    ks = "{1, 7, 31, 32, 62}" if q else "{1, 2, 7, 8, 15, 16, 30, 31, 32, 33, 47, 53, 62, 63}"
    k = 4 if q else 12
    r = ctx.tlc("MC_C01", 'SPECIFICATION Spec\nCONSTANTS MODE = "pool" W = 64 K = %d Ks = %s\n%s' % (k, ks, INV),
                dump=True, name="64-bit boundary pool")
    cases = [state_case(s) for s in read_dump(r.dump)]
    # 3. doubles
    r = ctx.tlc("MC_C01D", INVD, dump=True, name="double class algebra")
    dcases = [state_case(s) for s in read_dump(r.dump)]
    indef = sum(1 for c in dcases if c[4]["t"] == "indef")
    cases += dcases
    nobs = 0
    for n, bad in pmap(_replay_case, cases):
        nobs += n
        for sig, case in bad:
            ctx.disagree(sig, case)
    ctx.cov["traces_validated_against_impl"] += len(cases)
    ctx.cov["evaluations"] += nobs
    ctx.cov["replayed_states"] = len(cases)
    ctx.cov["double_states_indefinite"] = indef
    for c in cases[:: max(1, len(cases) // 4)][:4]:
        ctx.sample({"ty": c[0], "op": c[1], "a": repr(c[2]), "b": repr(c[3]), "expected": c[4]})
    # 4. code -> spec: random events recorded from the implementation, validated by TLC
    rng = random.Random(ctx.seed)
    evs = gen_random(rng, 3000 if q else 60000)
    observed = pmap(_observe_event, evs)
    lines, index = [], []
    for ev, (obs, text) in zip(evs, observed):
        ty, op, a, b = ev
        for path, got in obs.items():
            lines.append({"ty": ty, "op": op, "a": enc_num(ty, a), "b": enc_num(ty, b), "out": enc_out(ty, got)})
            index.append((ev, path, got, text))
    batch = 40000
    rejected_total = 0
    for s in range(0, len(lines), batch):
        tf = ctx.work / ("trace_%d.ndjson" % s)
        write_ndjson(tf, lines[s:s + batch])
        tr = ctx.tlc("Trace_C01", "INIT Init\nNEXT Next\nPOSTCONDITION Post\nCHECK_DEADLOCK FALSE\n",
                     workers=1, env={"TRACE_FILE": str(tf)}, name="trace validation")
        rej, consumed = trace_verdict(tr.stdout, len(lines[s:s + batch]))
        ctx.cov["trace_events_indefinite"] = ctx.cov.get("trace_events_indefinite", 0) + consumed[3]
        for idx, expw in rej:
            ev, path, got, text = index[s + idx - 1]
            ty, op, a, b = ev
            exp = {"t": "err"} if expw["t"] == "err" else (
                {"t": "double", "v": celx.undyadic(expw)} if ty == "double" else {"t": ty, "v": unbig(expw)})
            ctx.disagree(sig_of(ty, op, a, b, path, exp, got),
                         {"ty": ty, "op": op, "a": repr(a), "b": repr(b), "path": path, "cel": text,
                          "expected": exp, "observed": got, "from": "trace"})
            rejected_total += 1
    ctx.cov["traces_validated_against_impl"] += len(lines)
    ctx.cov["evaluations"] += len(lines)
    ctx.cov["trace_events"] = len(lines)
    ctx.cov["trace_events_rejected"] = rejected_total
    ctx.assumptions += [
        "inexact finite double results are specified by RoundNE (round-to-nearest-even on exact dyadic / quotient values, 53 bits, "
        "subnormals, overflow to infinity); %d double states remained indefinite" % indef,
        "BigInt limb arithmetic is validated against TLC native integers at small width only (same algorithms at B=2^15)",
    ]
    return ctx.finish(rule="TLC enumerates (type, op, a, b) over the 64-bit boundary pool united with a small box, and the double pool; "
                           "each state is executed through 6 paths (celtypes direct, reflected, literal and bound-variable "
                           "expressions under both runners); random events go the other way through Trace_C01. "
                           "distinct = distinct (type, op, a, b) tuples",
                      extra={"distinct_nontrivial": len(set((c[0], c[1], repr(c[2]), repr(c[3])) for c in cases)) + len(set(map(repr, evs)))})


def ctx_error(msg):
    from .core import MachineryError
    return MachineryError(msg)


def replay(path):
    d = json.load(open(path))
    c = d["case"]
    a, b = eval(c["a"], {"nan": math.nan, "inf": math.inf}), eval(c["b"], {"nan": math.nan, "inf": math.inf})
    obs, text = observe(c["ty"], c["op"], a, b)
    print(text, json.dumps(obs, default=str, indent=1))
    ok = agrees(c["ty"], c["expected"], obs[c["path"]])
    print("expected", c["expected"], "->", "agrees" if ok else "DISAGREES")
    return 0 if ok else 1
