"""C06 parser precedence / associativity; AST dump round trip.  Spec: CelSyntax.tla; model MC_C06; trace Trace_C06."""
from __future__ import annotations

import json
import random
import re

import lark

from . import celx, corpus
from .celx import celpy
from .core import Ctx, read_dump, write_ndjson, trace_verdict, pmap, run_tlc, parse_tla, MachineryError
from celpy.celparser import CELParser, CELParseError, tree_dump
from celpy.evaluation import TranspilerTree

BINOPS = '{"||", "&&", "==", "<", "in", "+", "-", "*", "%"}'
ALLOPS = '{"||", "&&", "==", "!=", "<", "<=", ">", ">=", "in", "+", "-", "*", "/", "%"}'
INV = "INVARIANT RoundTrip\nINVARIANT FullRoundTrip\nINVARIANT Economical\nCHECK_DEADLOCK FALSE\n"
_PARSERS = {}


def parser(cls):
    if cls not in _PARSERS:
        _PARSERS[cls] = CELParser(tree_class=lark.Tree if cls == "I" else TranspilerTree)
    return _PARSERS[cls]


# ---- lark tree -> abstract AST (parenthesis nodes and single-child chains dropped)
BINNAMES = {"relation_lt": "<", "relation_le": "<=", "relation_gt": ">", "relation_ge": ">=", "relation_eq": "==",
            "relation_ne": "!=", "relation_in": "in", "addition_add": "+", "addition_sub": "-",
            "multiplication_mul": "*", "multiplication_div": "/", "multiplication_mod": "%"}


def norm(t):
    d, ch = t.data, t.children
    if d == "expr":
        if len(ch) == 1:
            return norm(ch[0])
        return {"k": "cond", "c": norm(ch[0]), "a": norm(ch[1]), "b": norm(ch[2])}
    if d in ("conditionalor", "conditionaland"):
        if len(ch) == 1:
            return norm(ch[0])
        return {"k": "bin", "op": "||" if d == "conditionalor" else "&&", "l": norm(ch[0]), "r": norm(ch[1])}
    if d in ("relation", "addition", "multiplication"):
        if len(ch) == 1:
            return norm(ch[0])
        return {"k": "bin", "op": BINNAMES[ch[0].data], "l": norm(ch[0].children[0]), "r": norm(ch[1])}
    if d == "unary":
        if len(ch) == 1:
            return norm(ch[0])
        return {"k": "un", "op": "!" if ch[0].data == "unary_not" else "-", "x": norm(ch[1])}
    if d in ("member", "primary"):
        return norm(ch[0])
    if d == "member_dot":
        return {"k": "sel", "x": norm(ch[0]), "f": str(ch[1])}
    if d == "member_dot_arg":
        return {"k": "mcall", "x": norm(ch[0]), "f": str(ch[1]), "args": args(ch[2]) if len(ch) > 2 else []}
    if d == "member_index":
        return {"k": "idx", "x": norm(ch[0]), "i": norm(ch[1])}
    if d == "member_object":
        return {"k": "obj", "x": norm(ch[0]), "args": pairs(ch[1], True) if len(ch) > 1 else []}
    if d == "literal":
        s = str(ch[0])
        if re.fullmatch(r"-[0-9.].*", s):    # a sign glued to a number by the lexer: lexical, out of model -> same as unary minus
            return {"k": "un", "op": "-", "x": {"k": "lit", "n": s[1:]}}
        return {"k": "lit", "n": s}
    if d == "dot_ident_arg":
        return {"k": "dotcall", "f": str(ch[0]), "args": args(ch[1]) if len(ch) > 1 else []}
    if d == "dot_ident":
        return {"k": "dotid", "n": str(ch[0])}
    if d == "ident_arg":
        return {"k": "call", "f": str(ch[0]), "args": args(ch[1]) if len(ch) > 1 else []}
    if d == "ident":
        return {"k": "id", "n": str(ch[0])}
    if d == "paren_expr":
        return norm(ch[0])
    if d == "list_lit":
        return {"k": "list", "args": args(ch[0]) if ch else []}
    if d == "map_lit":
        return {"k": "map", "args": pairs(ch[0], False) if ch else []}
    raise ValueError("unknown node " + d)


def args(t):
    return [norm(c) for c in t.children]


def pairs(t, fields):
    ch = t.children
    return [[str(ch[i]) if fields else norm(ch[i]), norm(ch[i + 1])] for i in range(0, len(ch), 2)]


# ---- token records -> text
TIGHT = set("()[]{},.")


def text_of(toks, style):
    seps = [" ", "\n", " // c\n", "  \t", " //\n"]        # (a comment may be empty)
    out = []
    for j, t in enumerate(toks):
        s = t["s"]
        if j:
            prev = toks[j - 1]["s"]
            if style % 5 == 4 and (s in TIGHT or prev in TIGHT) and not (prev == "-" or s == "-"):
                sep = ""
            elif s == "." or prev == ".":
                sep = "" if style % 2 else " "
            else:
                sep = seps[(style + j) % len(seps)] if style % 5 != 0 else " "
            out.append(sep)
        out.append(s)
    # a comment may end the text without a line break after it
    return "".join(out) + (" // c" if style % 7 == 3 else " //" if style % 7 == 5 else "")


def has_empty_list(t):
    if isinstance(t, dict):
        if t.get("k") == "list" and not t["args"]:
            return True
        return any(has_empty_list(v) for v in t.values())
    if isinstance(t, list):
        return any(has_empty_list(v) for v in t)
    return False


def shape2(t):
    """top two construct kinds, for signatures"""
    def k(x):
        return (x.get("op") or x["k"]) if isinstance(x, dict) and "k" in x else "_"
    kids = [v for v in t.values() if isinstance(v, dict) and "k" in v]
    return "%s(%s)" % (k(t), ",".join(sorted(set(k(c) for c in kids))))


def _replay(item):
    t, rt, ft, style = item
    bad, n = [], 0
    texts = {"render": text_of(rt, style), "full": text_of(ft, style + 1)}
    for cls in ("I", "C"):
        p = parser(cls)
        for which, text in texts.items():
            n += 1
            try:
                tree = p.parse(text)
                got = norm(tree)
            except CELParseError as ex:
                got = {"k": "parse-error", "msg": str(ex)[:80]}
            except Exception as ex:  # noqa: BLE001
                got = {"k": "exception", "cls": type(ex).__name__}
            if got != t:
                bad.append(("parse %s: %s -> %s" % (which, shape2(t), got.get("k") if got.get("k") in ("parse-error", "exception") else "other tree"),
                            {"tree": t, "text": text, "tree_class": cls, "observed": got, "which": which}))
                continue
            if which == "render":
                # AST dump round trip
                n += 1
                try:
                    dumped = tree_dump(tree)
                    got2 = norm(p.parse(dumped))
                except CELParseError:
                    got2 = {"k": "parse-error"}
                    dumped = locals().get("dumped")
                except Exception as ex:  # noqa: BLE001
                    got2 = {"k": "exception", "cls": type(ex).__name__}
                    dumped = locals().get("dumped")
                if got2 != t:
                    kind = "empty-list-literal" if has_empty_list(t) else shape2(t)
                    bad.append(("dump: %s -> %s" % (kind, got2.get("k") if got2.get("k") in ("parse-error", "exception") else "other tree"),
                                {"tree": t, "text": text, "dump": dumped, "tree_class": cls, "observed": got2}))
    return n, bad


# ---- an independent tokenizer for the code -> spec direction
_TOKEN = re.compile(r"""
    (?P<ws>[\t\n\f\r ]+|//[^\n]*)
  | (?P<str>[bB]?[rR]?(?:\"\"\"(?:\\.|[^\\])*?\"\"\"|'''(?:\\.|[^\\])*?'''|"(?:\\.|[^"\\\n])*"|'(?:\\.|[^'\\\n])*'))
  | (?P<num>(?:0[xX][0-9a-fA-F]+|[0-9]+\.[0-9]*(?:[eE][+-]?[0-9]+)?|\.[0-9]+(?:[eE][+-]?[0-9]+)?|[0-9]+(?:[eE][+-]?[0-9]+)?)[uU]?)
  | (?P<id>[_a-zA-Z][_a-zA-Z0-9]*)
  | (?P<p>\|\||&&|<=|>=|==|!=|[-+*/%<>!?:.,()\[\]{}])
""", re.X)


def tokenize(text):
    toks, pos = [], 0
    while pos < len(text):
        m = _TOKEN.match(text, pos)
        if not m:
            return None
        pos = m.end()
        if m.lastgroup == "ws":
            continue
        s = m.group(m.lastgroup)
        if m.lastgroup in ("str", "num"):
            toks.append({"k": "lit", "s": s})
        elif m.lastgroup == "id":
            toks.append({"k": "p", "s": s} if s == "in" else {"k": "lit", "s": s} if s in ("true", "false", "null") else {"k": "id", "s": s})
        else:
            toks.append({"k": "p", "s": s})
    return toks


def raw_string_backslash(text):
    return bool(re.search(r"[rR][\"']", text))


def run(ctx: Ctx) -> int:
    q = ctx.quick
    items = []
    cfgs = [("chain depth 2", 'DEPTH = 2 MODE = "chain" WIDE = %s BINOPS = %s' % ("FALSE" if q else "TRUE", BINOPS), 1),
            ("all operators depth 1", 'DEPTH = 1 MODE = "chain" WIDE = TRUE BINOPS = %s' % ALLOPS, 1),
            ("pairs of depth-1 trees", 'DEPTH = 0 MODE = "pairs" WIDE = FALSE BINOPS = %s' % BINOPS, 4 if q else 1)]
    if not q:
        cfgs.append(("chain depth 3", 'DEPTH = 3 MODE = "chain" WIDE = FALSE BINOPS = %s' % BINOPS, 8))
    seen = set()
    for name, consts, stride in cfgs:
        r = ctx.tlc("MC_C06", "SPECIFICATION Spec\nCONSTANTS %s\n%s" % (consts, INV), dump=True, name=name)
        states = read_dump(r.dump)
        trees = [s["t"] for j, s in enumerate(states) if j % stride == 0]
        for t in trees:
            key = json.dumps(t, sort_keys=True)
            if key not in seen:
                seen.add(key)
                items.append(t)
        if stride > 1:
            ctx.cov.setdefault("replay_note", []).append("%s: every %d-th state replayed (all model-checked)" % (name, stride))
    # token sequences come from the specification's own Render / Full: evaluated by TLC in batches
    rendered = render_with_tlc(ctx, items)
    work = [(t, rt, ft, j) for j, (t, (rt, ft)) in enumerate(zip(items, rendered))]
    nobs = 0
    for n, bad in pmap(_replay, work):
        nobs += n
        for sig, case in bad:
            ctx.disagree(sig, case)
    ctx.cov["traces_validated_against_impl"] += len(work)
    ctx.cov["evaluations"] += nobs
    ctx.cov["replayed_trees"] = len(work)
    for w in work[:: max(1, len(work) // 4)][:4]:
        ctx.sample({"tree": w[0], "render": text_of(w[1], 0), "full": text_of(w[2], 0)})
    # code -> spec: corpus + mutated corpus
    rng = random.Random(ctx.seed)
    texts = [t for _, t in corpus.expressions()]
    # the literal words in every position where a name could stand: they are literals there too ("always literals"), so these are syntax errors --
    # and as the receiver of a selection they are ordinary primaries
    for w in ("true", "false", "null"):
        texts += [t % w for t in ("a.%s", "a.%s(1)", ".%s", ".%s(1)", "%s(1)", "M{%s: 1}", "a.%s.b", "a.b.%s", "[a.%s]", "a ? b.%s : c", "%s.a", "[%s]", "x.%sy", "%s_.a", "a.%s_")]
    muts = []
    ops = ["||", "&&", "==", "!=", "<", "<=", ">", ">=", " in ", "+", "-", "*", "/", "%", "?", ":", "!", ".", "(", ")", "[", "]", ","]
    for _ in range(300 if q else 6000):
        t = rng.choice(texts)
        toks = tokenize(t)
        if not toks or len(toks) < 3:
            continue
        j = rng.randrange(len(toks))
        kind = rng.random()
        if kind < 0.4:
            toks[j] = {"k": "p", "s": rng.choice(ops).strip()}
        elif kind < 0.7:
            del toks[j]
        else:
            toks.insert(j, {"k": "p", "s": rng.choice(ops).strip()})
        muts.append(" ".join(x["s"] for x in toks))
    lines, index = [], []
    p = parser("I")
    skipped = lexical = 0
    for text in texts + muts:
        toks = tokenize(text)
        if toks is None:
            skipped += 1
            continue
        try:
            tree = p.parse(text)
            ast = norm(tree)
            # lexical agreement first: the words the library saw must be the words of the harness tokenizer
            # (keyword `in` glued to an identifier, `in` used as an identifier, `24.f`: lexical questions, out of model)
            mine = [t["s"] for t in toks if t["k"] in ("id", "lit")]
            theirs = [re.sub(r"^-(?=[0-9.])", "", str(v)) for v in tree.scan_values(lambda v: isinstance(v, lark.Token))]
            if mine != theirs:
                lexical += 1
                continue
            ev = {"toks": toks, "ok": True, "ast": ast}
        except CELParseError:
            ev = {"toks": toks, "ok": False, "ast": {"k": "fail"}}
        except Exception as ex:  # noqa: BLE001
            ctx.disagree("parse raises %s" % type(ex).__name__, {"text": text})
            continue
        lines.append(ev)
        index.append(text)
    tf = ctx.work / "trace.ndjson"
    write_ndjson(tf, lines)
    tr = ctx.tlc("Trace_C06", "INIT Init\nNEXT Next\nPOSTCONDITION Post\nCHECK_DEADLOCK FALSE\n", workers=1,
                 env={"TRACE_FILE": str(tf)}, name="trace validation (corpus)")
    rej, cons = trace_verdict(tr.stdout, len(lines))
    for idx, what in rej:
        text = index[idx - 1]
        ev = lines[idx - 1]
        ctx.disagree("corpus text: library %s, specification %s" % ("accepts" if ev["ok"] else "rejects", what),
                     {"text": text, "library_tree": ev["ast"], "spec": what, "from": "trace"})
    ctx.cov["traces_validated_against_impl"] += len(lines)
    ctx.cov["evaluations"] += len(lines)
    ctx.cov["trace_events"] = len(lines)
    ctx.cov["corpus_texts"] = len(texts)
    ctx.cov["corpus_untokenizable"] = skipped
    ctx.cov["corpus_lexically_out_of_model"] = lexical
    ctx.assumptions += ["a sign glued to a numeric literal by the lexer (-1) is identified with unary minus on the literal (lexical maximal munch is out of model)",
                        "numeric literals are not used as the operand of '.' (1.f is a lexical question)",
                        "operators are never glued to identifiers; separators are drawn from space, newline, tab, '// c' comments, and none next to brackets"]
    return ctx.finish(rule="TLC grows trees by wrapping in every syntactic position (chains), plus all binary combinations of depth-1 trees; "
                           "Parse(Render(t)) = t and Parse(Full(t)) = t are model invariants; each tree's two token sequences are rendered with "
                           "varying separators and parsed by the library under both tree classes, then dumped and re-parsed; corpus and mutated "
                           "corpus texts go the other way through Trace_C06. distinct = distinct trees",
                      extra={"distinct_nontrivial": len(items) + len(set(index))})


def render_with_tlc(ctx, trees):
    """Token sequences Render(t, 1) and Full(t) for each tree, computed by the specification (TLC evaluates them)."""
    out = []
    batch = 20000
    for s in range(0, len(trees), batch):
        part = trees[s:s + batch]
        tf = ctx.work / ("trees_%d.ndjson" % s)
        of = ctx.work / ("toks_%d.ndjson" % s)
        write_ndjson(tf, [{"t": t} for t in part])
        r = ctx.tlc("Render_C06", "INIT Init\nNEXT Next\nCHECK_DEADLOCK FALSE\n", workers=1,
                    env={"TRACE_FILE": str(tf), "OUT_FILE": str(of)}, name="Render/Full by the specification")
        with open(of) as f:
            rows = [json.loads(line) for line in f if line.strip()]
        if len(rows) != len(part):
            raise MachineryError("render batch: %d rows for %d trees" % (len(rows), len(part)))
        out += [(row["r"], row["f"]) for row in rows]
    return out


def replay(path):
    d = json.load(open(path))
    c = d["case"]
    if "tree" not in c:
        print(c)
        return 1
    p = parser(c.get("tree_class", "I"))
    try:
        got = norm(p.parse(c["text"]))
    except Exception as ex:  # noqa: BLE001
        got = {"k": type(ex).__name__}
    print(c["text"], "->", json.dumps(got))
    return 0 if got == c["tree"] else 1
