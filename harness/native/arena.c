/* A caching arena allocator for CPython (installed with PyObject_SetArenaAllocator).
   CPython 3.12 mmap()s / munmap()s a 16 KiB data-stack chunk every time the call depth crosses a chunk
   boundary; celpy's evaluators recurse deeply, and in this sandbox concurrent munmap calls serialise
   (16 worker processes ran 60x slower than one).  Blocks we hand out are remembered and recycled; blocks
   we did not allocate (arenas created before installation) are still returned with munmap. */
#include <stddef.h>
#include <stdlib.h>
#include <sys/mman.h>

#define SMALL 16384
#define NCACHE 256
static void *cache[NCACHE];
static int ncache = 0;
#define NOWN 4096
static void *own[NOWN];
static size_t ownsize[NOWN];
static int nown = 0;

static int find_own(void *p) {
    for (int i = 0; i < nown; i++) if (own[i] == p) return i;
    return -1;
}

void *verif_arena_alloc(void *ctx, size_t size) {
    (void)ctx;
    if (size == SMALL && ncache > 0) return cache[--ncache];
    void *p = mmap(NULL, size, PROT_READ | PROT_WRITE, MAP_PRIVATE | MAP_ANONYMOUS, -1, 0);
    if (p == MAP_FAILED) return NULL;
    if (nown < NOWN) { own[nown] = p; ownsize[nown] = size; nown++; }
    return p;
}

void verif_arena_free(void *ctx, void *ptr, size_t size) {
    (void)ctx;
    if (size == SMALL && ncache < NCACHE && find_own(ptr) >= 0) { cache[ncache++] = ptr; return; }
    int i = find_own(ptr);
    if (i >= 0) { own[i] = own[nown - 1]; ownsize[i] = ownsize[nown - 1]; nown--; }
    munmap(ptr, size);
}

typedef struct { void *ctx; void *(*alloc)(void *, size_t); void (*free)(void *, void *, size_t); } arena_allocator;
static arena_allocator A = { NULL, verif_arena_alloc, verif_arena_free };
void *verif_arena_struct(void) { return &A; }
