"""C17 Custodian helper functions.  Spec: C7nLib.tla; model MC_C17 (function families + filter-context machine)."""
from __future__ import annotations

import json
import random

from . import celx
from .celx import ct, celpy
from .core import Ctx, read_dump, pmap
import celpy.c7nlib as c7nlib

INV = """INVARIANT ContextClean
INVARIANT SetLaws
INVARIANT GlobLaws
INVARIANT CidrLaws
INVARIANT VersionLaws
CHECK_DEADLOCK FALSE
"""
FAMILIES = ["sets", "text", "cidr", "version", "tags", "arn", "ctx"]


def s_of(v):
    return "".join(chr(c) for c in v["v"])


def direct(fn, args):
    """call the helper directly with celtypes arguments -> abstract outcome"""
    a = [celx.to_cel(celx.dec(x)) for x in args]
    try:
        if fn in ("intersect", "difference", "unique_size", "normalize", "glob", "key", "marked_key", "arn_split", "size_parse_cidr"):
            v = getattr(c7nlib, fn)(*a)
        elif fn == "contains_addr" or fn == "contains_net":
            n, x = c7nlib.parse_cidr(a[0]), c7nlib.parse_cidr(a[1])
            v = ct.BoolType(n.contains(x)) if n is not None and x is not None else "parse_cidr gave None"
        elif fn == "version_cmp":
            va, vb = c7nlib.version(a[0]), c7nlib.version(a[1])
            v = ct.IntType(-1 if va < vb else 1 if va > vb else 0)
            if (va == vb) != (v == 0) or (va <= vb) != (v <= 0) or (va >= vb) != (v >= 0) or (va != vb) != (v != 0):
                v = "incoherent comparison operators"
        else:
            raise KeyError(fn)
    except (ValueError, KeyError, TypeError) as ex:
        return {"t": "err", "cls": type(ex).__name__}
    except Exception as ex:  # noqa: BLE001
        return {"t": "exc", "cls": type(ex).__name__, "phase": "direct", "msg": str(ex)[:100]}
    if isinstance(v, str) and not isinstance(v, ct.StringType):
        return {"t": "other", "v": v}
    return celx.strip_py(celx.project(v))


def cel_text(fn, args):
    L = [celx.lit(celx.dec(x)) for x in args]
    if fn in ("intersect", "difference", "key", "marked_key", "arn_split"):
        return "%s(%s, %s)" % (fn, L[0], L[1]), "%s.%s(%s)" % (L[0], fn, L[1])
    if fn in ("unique_size", "normalize", "size_parse_cidr"):
        return "%s(%s)" % (fn, L[0]), "%s.%s()" % (L[0], fn)
    if fn == "glob":
        return "glob(%s, %s)" % (L[0], L[1]), "%s.glob(%s)" % (L[0], L[1])
    if fn in ("contains_addr", "contains_net"):
        return "parse_cidr(%s).contains(parse_cidr(%s))" % (L[0], L[1]), None
    if fn == "version_cmp":
        return "version(%s) < version(%s) ? -1 : (version(%s) == version(%s) ? 0 : 1)" % (L[0], L[1], L[0], L[1]), \
               "version(%s) >= version(%s) ? (version(%s) > version(%s) ? 1 : 0) : -1" % (L[0], L[1], L[0], L[1])
    raise KeyError(fn)


def through_cel(text):
    return celx.strip_py(celx.outcome_abs(celx.run(text, {}, "I", functions=c7nlib.FUNCTIONS, cache=False)))


def agrees(exp, got):
    from . import evalx
    return evalx.agrees(exp, got)


def shape(fn, args):
    if fn == "glob":
        p = s_of(args[1])
        return "glob pattern{%s}" % "".join(sorted(set(c for c in p if c in "*?[]!")))
    if fn in ("contains_addr", "contains_net", "size_parse_cidr"):
        return fn
    if fn in ("key", "marked_key"):
        return fn
    return fn


def _replay(item):
    call, exp_w = item
    fn, args = call["fn"], call["args"]
    exp = celx.dec(exp_w)
    bad = []
    n = 1
    got = direct(fn, args)
    if not agrees(exp, got):
        bad.append(("%s direct exp=%s got=%s" % (shape(fn, args), exp["t"] if exp["t"] in ("err", "null") else "val", got["t"] if got["t"] in ("err", "exc", "null", "other") else ("other value" if exp["t"] not in ("err", "null") else "val")),
                    {"fn": fn, "args": args, "expected": exp_w, "observed": got, "path": "direct"}))
    t1, t2 = cel_text(fn, args)
    for form, text in (("function", t1), ("method", t2)):
        if text is None:
            continue
        n += 1
        got = through_cel(text)
        if not agrees(exp, got):
            bad.append(("%s cel-%s exp=%s got=%s" % (shape(fn, args), form, exp["t"] if exp["t"] in ("err", "null") else "val", got["t"] if got["t"] in ("err", "exc", "null", "other") else ("other value" if exp["t"] not in ("err", "null") else "val")),
                        {"fn": fn, "args": args, "cel": text, "expected": exp_w, "observed": got, "path": form}))
    return n, bad


class Probe:
    """a helper function that looks at the filter context while an evaluation is running"""
    def __init__(self):
        self.seen = []

    def __call__(self, kind):
        self.seen.append(getattr(c7nlib.C7N, "filter", "no-context"))
        k = str(kind)
        if k == "celerror":
            return celx.CELEvalError("probe says no")
        if k == "raises":
            raise RuntimeError("probe raises")
        return ct.BoolType(True)


def replay_context(hist):
    """one process-wide sequence of evaluations; returns per step (seen during, after)"""
    env = celpy.Environment(runner_class=c7nlib.C7N_Interpreted_Runner)
    probe = Probe()
    ast = env.compile("probe(kind)")
    prog = env.program(ast, functions={"probe": probe})
    out = []
    for step in hist:
        probe.seen.clear()
        try:
            prog.evaluate({"kind": ct.StringType(step["kind"])}, filter=step["filter"])
            res = "ok"
        except celx.CELEvalError:
            res = "celerror"
        except RuntimeError:
            res = "raises"
        except Exception as ex:  # noqa: BLE001
            res = "other:" + type(ex).__name__
        seen = probe.seen[0] if probe.seen else "not-called"
        after = "none" if c7nlib.C7N is None else getattr(c7nlib.C7N, "filter", "?")
        out.append({"seen": seen, "after": after, "result": res})
    return out


def _replay_ctx(hist):
    bad = []
    obs = replay_context(hist)
    for j, (step, o) in enumerate(zip(hist, obs)):
        if o["seen"] != step["seen"]:
            bad.append(("context: helper saw %s during an evaluation (%s)" % ("nothing" if o["seen"] in ("no-context", "not-called") else "another filter", step["kind"]), {"history": hist, "step": j, "observed": o}))
        if o["after"] != step["after"]:
            bad.append(("context: not cleared after an evaluation that %s" % {"ok": "succeeds", "celerror": "fails with an evaluation error", "raises": "raises"}[step["kind"]], {"history": hist, "step": j, "observed": o}))
        if o["result"] != step["kind"]:
            bad.append(("context: evaluation outcome %s instead of %s" % (o["result"], step["kind"]), {"history": hist, "step": j, "observed": o}))
    return len(hist), bad


def run(ctx: Ctx) -> int:
    q = ctx.quick
    total = 0
    nobs = 0
    for fam in FAMILIES:
        r = ctx.tlc("MC_C17", 'SPECIFICATION Spec\nCONSTANTS FAMILY = "%s" TIER = "%s"\n%s' % (fam, ctx.tier, INV), dump=True, name="family " + fam)
        states = read_dump(r.dump)
        if fam == "ctx":
            hists = [s["hist"] for s in states if s["hist"]]
            for n, bad in pmap(_replay_ctx, hists):
                nobs += n
                for sig, case in bad:
                    ctx.disagree(sig, case)
            ctx.cov["replayed_context_histories"] = len(hists)
            total += len(hists)
            ctx.sample({"context_history": hists[-1]})
            continue
        items = [(s["call"], s["exp"]) for s in states if s["call"]["fn"] != "none"]
        if q and len(items) > 6000:
            # (cases with a long list are all kept, next to each other: equal-length lists following one another in one process)
            long_ = [it for it in items if any(isinstance(a, dict) and a.get("t") == "list" and len(a["v"]) > 8 for a in it[0]["args"])]
            items = [it for it in items if it not in long_][::4] + long_
            ctx.cov.setdefault("replay_note", []).append("family %s: every 4th case replayed in the quick tier (all model-checked)" % fam)
        for n, bad in pmap(_replay, items):
            nobs += n
            for sig, case in bad:
                ctx.disagree(sig, case)
        ctx.cov["replayed_" + fam] = len(items)
        total += len(items)
        it = items[len(items) // 2]
        ctx.sample({"call": it[0]["fn"], "cel": cel_text(it[0]["fn"], it[0]["args"])[0], "expected": it[1]})
    ctx.cov["traces_validated_against_impl"] += total
    ctx.cov["evaluations"] += nobs
    ctx.assumptions += ["glob patterns use the alphabet { a B * ? [ ] ! }: character ranges (a-z) are not modelled",
                        "versions are dotted decimal components (no pre-release / local segments)", "IPv4 only; networks are written with their host bits zero"]
    return ctx.finish(rule="TLC enumerates, per helper, an exhaustive small input space (lists over a 3-element alphabet to length 3 incl. duplicates, texts and "
                           "patterns to length 3-4, every prefix length 0..32 against addresses that differ in one bit, versions of 1-3 components, tag lists, "
                           "ARN shapes) and all histories of up to 4 evaluations for the filter context; each case is called directly and through CEL "
                           "(function and method form) with FUNCTIONS bound. distinct = distinct cases",
                      extra={"distinct_nontrivial": total})


def replay(path):
    d = json.load(open(path))
    c = d["case"]
    if "fn" in c:
        n, bad = _replay(({"fn": c["fn"], "args": c["args"]}, c["expected"]))
        for s, cc in bad:
            print(s, cc.get("observed"))
        return 1 if bad else 0
    n, bad = _replay_ctx(c["history"])
    for s, cc in bad:
        print(s)
    return 1 if bad else 0
