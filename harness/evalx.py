"""Shared replay / trace plumbing for the properties decided with specs/CelEval.tla."""
from __future__ import annotations

import json

from . import celx
from .core import write_ndjson, trace_verdict, pmap


def wire_out(a):
    """abstract outcome (celx.outcome_abs) -> wire record comparable with the spec's values"""
    if a["t"] in ("exc", "parse", "other"):
        return {"t": "other:" + a["t"]}
    return celx.enc(celx.strip_py(a))


def _exposes_timestamp_text(prog):
    """does the program turn a value into text (string(), and from there bytes / size ...)?  The zone a timestamp literal is written
    in then shows in the result, and the specifications fix that text for UTC only -- except under the round-trip law
    timestamp(string(t)) == t, which is about values again"""
    if isinstance(prog, dict):
        if prog.get("k") == "bin" and prog.get("op") == "==":
            return False
        if prog.get("k") in ("call", "mcall") and prog.get("f") == "string":
            return True
        return any(_exposes_timestamp_text(v) for v in prog.values())
    if isinstance(prog, list):
        return any(_exposes_timestamp_text(v) for v in prog)
    return False


def render(prog):
    if _exposes_timestamp_text(prog):
        saved, celx.TS_OFFSETS = celx.TS_OFFSETS, [0]
        try:
            return celx.render_ast(prog)
        finally:
            celx.TS_OFFSETS = saved
    return celx.render_ast(prog)


def observe(prog, env_pairs=(), runners=("I", "C")):
    text = render(prog)
    bind = {n: celx.to_cel(celx.dec(v)) for n, v in env_pairs}
    out = {}
    for r in runners:
        out[r] = celx.outcome_abs(celx.run(text, bind, r))
    return text, out


def agrees(exp_abs, got_abs):
    """spec value (abstract, decoded) vs observed abstract outcome"""
    if exp_abs["t"] == "indef":
        return True
    if exp_abs["t"] == "err":
        return got_abs["t"] == "err"
    if got_abs["t"] in ("err", "exc", "parse", "other"):
        return False
    return celx.same(exp_abs, celx.strip_py(got_abs))


def kind_of(a):
    return a["t"] if a["t"] in ("err", "exc", "parse", "indef") else "val:" + a["t"]


def node_kinds(e, acc=None):
    acc = acc if acc is not None else []
    if isinstance(e, dict) and "k" in e:
        tag = e["k"]
        if tag in ("bin", "un"):
            tag = e["op"]
        elif tag == "macro":
            tag = e["m"]
        elif tag in ("call", "mcall"):
            tag = e["f"]
        if tag not in ("lit", "var"):
            acc.append(tag)
        for v in e.values():
            node_kinds(v, acc)
    elif isinstance(e, list):
        for v in e:
            node_kinds(v, acc)
    return acc


def chain(prog):
    """conversion-style chains f(g(literal)): 'f<g<lit:type[:shape]' (used to make signatures specific)"""
    names = []
    e = prog
    while isinstance(e, dict) and e.get("k") == "call" and len(e.get("args", [])) == 1:
        names.append(e["f"])
        e = e["args"][0]
    if not names or not (isinstance(e, dict) and e.get("k") == "lit"):
        return None
    v = e["v"]
    shape = v["t"]
    if v["t"] == "string":
        text = "".join(chr(c) for c in v["v"])
        import re
        if re.fullmatch(r"\d{4}-\d\d-\d\d[Tt ]\d\d:\d\d:\d\d(\.\d+)?[+-]\d\d:\d\d", text):
            shape += ":rfc3339-with-offset"
        elif re.fullmatch(r"\d{4,}-\d\d-\d\d.\d\d:\d\d:\d\d(\.\d+)?[Zz]", text):
            shape += ":rfc3339-utc"
        elif re.fullmatch(r"[-+]?\d+", text):
            shape += ":integer-text"
    return "<".join(names) + "<lit:" + shape


def sig(prog, exp_abs, got_abs, runner):
    kinds = node_kinds(prog)
    root = chain(prog) or (kinds[0] if kinds else "lit")
    got = kind_of(got_abs)
    if got_abs["t"] == "exc":
        got = "exc:%s@%s" % (got_abs["cls"], got_abs["phase"])
    return "%s exp=%s got=%s runner=%s" % (root, kind_of(exp_abs) if exp_abs["t"] in ("err", "indef") else "val", got if not got.startswith("val:") or exp_abs["t"] in ("err",) else ("other value" if got_abs["t"] == exp_abs["t"] else got), runner)


def _replay(item):
    prog, env_pairs, exp_w = item
    exp = celx.dec(exp_w)
    text, obs = observe(prog, env_pairs)
    bad = []
    for r, got in obs.items():
        if not agrees(exp, got):
            bad.append((sig(prog, exp, got, r), {"prog": prog, "env": env_pairs, "cel": text, "runner": r, "expected": exp_w, "observed": got}))
    return len(obs), bad, obs


def replay_states(ctx, items):
    """items: (prog, env_pairs, expected wire).  Returns list of observations."""
    nobs = 0
    allobs = []
    for n, bad, obs in pmap(_replay, items):
        nobs += n
        allobs.append(obs)
        for s, case in bad:
            ctx.disagree(s, case)
    ctx.cov["traces_validated_against_impl"] += len(items)
    ctx.cov["evaluations"] += nobs
    return allobs


def _observe_item(item):
    prog, env_pairs = item
    return observe(prog, env_pairs)


def validate_trace(ctx, progs, name="trace validation"):
    """progs: (prog, env_pairs).  Evaluate under both runners and let TLC judge every event."""
    res = pmap(_observe_item, progs)
    lines, index = [], []
    for (prog, env_pairs), (text, obs) in zip(progs, res):
        for r, got in obs.items():
            lines.append({"prog": prog, "env": [list(p) for p in env_pairs], "out": wire_out(got)})
            index.append((prog, env_pairs, text, r, got))
    # TLC validates a trace with one worker; independent batches run as concurrent TLC processes
    from concurrent.futures import ThreadPoolExecutor
    from .core import NCPU
    nb = max(1, min(NCPU // 2, len(lines) // 150))
    batch = (len(lines) + nb - 1) // nb if lines else 1
    starts = list(range(0, len(lines), batch))
    indef = 0

    def one(s):
        tf = ctx.work / ("trace_%d.ndjson" % s)
        write_ndjson(tf, lines[s:s + batch])
        tr = ctx.tlc("Trace_Eval", "INIT Init\nNEXT Next\nPOSTCONDITION Post\nCHECK_DEADLOCK FALSE\n", workers=1,
                     env={"TRACE_FILE": str(tf)}, name=name)
        return s, trace_verdict(tr.stdout, len(lines[s:s + batch]))
    with ThreadPoolExecutor(nb) as ex:
        verdicts = list(ex.map(one, starts))
    for s, (rej, cons) in verdicts:
        indef += cons[3]
        for idx, expw in rej:
            prog, env_pairs, text, r, got = index[s + idx - 1]
            exp = celx.dec(expw)
            ctx.disagree(sig(prog, exp, got, r), {"prog": prog, "env": env_pairs, "cel": text, "runner": r, "expected": expw, "observed": got, "from": "trace"})
    ctx.cov["traces_validated_against_impl"] += len(lines)
    ctx.cov["evaluations"] += len(lines)
    ctx.cov["trace_events"] = ctx.cov.get("trace_events", 0) + len(lines)
    ctx.cov["trace_events_indefinite"] = ctx.cov.get("trace_events_indefinite", 0) + indef
    return index


def replay_file(path):
    d = json.load(open(path))
    c = d["case"]
    n, bad, obs = _replay((c["prog"], c.get("env", []), c["expected"]))
    print(c["cel"], json.dumps(obs, default=str))
    for s, case in bad:
        print("DISAGREES:", s)
    return 1 if bad else 0
