"""The repository's conformance corpus: every `When CEL expression <quoted> is evaluated` step of features/*.feature."""
import ast
import os
import re
from pathlib import Path

_RX = re.compile(r"^\s*When CEL expression (.*) is evaluated\s*$")


def expressions():
    out, seen = [], set()
    for f in sorted(Path(os.environ.get("VERIF_REPO", "/repo") + "/features").glob("*.feature")):
        for line in f.read_text().splitlines():
            m = _RX.match(line)
            if not m:
                continue
            try:
                text = ast.literal_eval(m.group(1))
            except Exception:  # noqa: BLE001
                continue
            if isinstance(text, str) and text not in seen:
                seen.add(text)
                out.append((f.name, text))
    return out
