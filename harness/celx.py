"""Drivers for the implementation under test and the abstract <-> celpy value mapping.

Abstract values (Python side) mirror the TLA+ records of specs/CelValue.tla:
  {"t":"int","v":n} {"t":"uint","v":n} {"t":"double","v":float} {"t":"bool","v":b} {"t":"null"}
  {"t":"string","v":str} {"t":"bytes","v":bytes} {"t":"list","v":[...]} {"t":"map","v":[[k,v],...]}
  {"t":"timestamp","v":(days, sec, micros)}  {"t":"duration","v":micros_total}  {"t":"type","v":name}  {"t":"err"}
enc()/dec() convert to / from the wire form used in dumps and traces (limbs, code points).
"""
from __future__ import annotations

import datetime
import math
import os
import sys

os.environ.setdefault("CELPY_VERIF", "1")
from . import fastarena  # noqa: E402

fastarena.install()
sys.path.insert(0, os.environ.get("VERIF_REPO", "/repo") + "/src")

import logging  # noqa: E402

logging.disable(logging.CRITICAL)

import celpy  # noqa: E402
import celpy.celtypes as ct  # noqa: E402
from celpy.evaluation import CELEvalError  # noqa: E402
from celpy.celparser import CELParseError  # noqa: E402

from .core import big, unbig, limbs  # noqa: E402

RUNNERS = {"I": celpy.InterpretedRunner, "C": celpy.CompiledRunner}
_ENVS = {}


def env(runner="I", package=None, annotations=None):
    if annotations is None:
        key = (runner, package)
        if key not in _ENVS:
            _ENVS[key] = celpy.Environment(package=package, runner_class=RUNNERS[runner])
        return _ENVS[key]
    return celpy.Environment(package=package, annotations=dict(annotations), runner_class=RUNNERS[runner])


def _vary_environment_order(ident):
    """forked workers start without cached environments and create the default two in an order that depends on the worker:
    which runner class an application happens to create first is no part of any property"""
    _ENVS.clear()
    _PROGS.clear()
    for r in (("I", "C") if ident % 2 else ("C", "I")):
        env(r)


from . import core as _core     # noqa: E402
_core.WORKER_INIT.append(_vary_environment_order)


class Outcome(dict):
    """{"k": "val", "v": <celpy object>} | {"k": "err"} | {"k": "parse", line, column} | {"k": "exc", "cls", "phase", "msg"}"""

    @property
    def kind(self):
        return self["k"]


def guarded(fn, phase="evaluate"):
    try:
        v = fn()
    except CELEvalError as ex:
        return Outcome(k="err", ex=ex)
    except CELParseError as ex:
        return Outcome(k="parse", line=ex.line, column=ex.column, ex=ex)
    except RecursionError as ex:
        return Outcome(k="exc", cls="RecursionError", phase=phase, msg="")
    except Exception as ex:  # noqa: BLE001 - the whole point is to classify what escapes
        return Outcome(k="exc", cls=type(ex).__name__, phase=phase, msg=str(ex)[:200])
    if isinstance(v, CELEvalError):
        return Outcome(k="err", ex=v)
    return Outcome(k="val", v=v)


_PROGS = {}


def program(text, runner="I", package=None, annotations=None, functions=None, cache=True):
    """Compile + build.  Returns (program, None) or (None, Outcome describing the failure)."""
    key = (text, runner, package)
    if cache and annotations is None and functions is None and key in _PROGS:
        return _PROGS[key]
    e = env(runner, package, annotations)
    o = guarded(lambda: e.compile(text), "compile")
    if o.kind != "val":
        res = (None, o)
    else:
        ast = o["v"]
        o2 = guarded(lambda: e.program(ast, functions=functions), "program")
        if o2.kind != "val":
            if o2.kind == "err":   # an evaluation error at construction time is still not acceptable: tag it
                o2 = Outcome(k="exc", cls="CELEvalError@program", phase="program", msg=str(o2["ex"])[:200])
            res = (None, o2)
        else:
            res = (o2["v"], None)
    if cache and annotations is None and functions is None:
        if len(_PROGS) > 50000:
            _PROGS.clear()
        _PROGS[key] = res
    return res


def run(text, bindings=None, runner="I", package=None, annotations=None, functions=None, cache=True):
    prog, fail = program(text, runner, package, annotations, functions, cache)
    if fail is not None:
        return fail
    return guarded(lambda: prog.evaluate(bindings if bindings is not None else {}), "evaluate")


# --------------------------------------------------------------------------
# abstract values
# --------------------------------------------------------------------------
UTC = datetime.timezone.utc
EPOCH = datetime.datetime(1970, 1, 1, tzinfo=UTC)

PYCLASS = {"int": "IntType", "uint": "UintType", "double": "DoubleType", "bool": "BoolType", "string": "StringType",
           "bytes": "BytesType", "list": "ListType", "map": "MapType", "timestamp": "TimestampType",
           "duration": "DurationType", "null": "NoneType"}


TYPE_NAMES = {"IntType": "int", "UintType": "uint", "DoubleType": "double", "BoolType": "bool", "StringType": "string",
              "BytesType": "bytes", "ListType": "list", "MapType": "map", "NoneType": "null_type", "NullType": "null_type",
              "TimestampType": "timestamp", "DurationType": "duration", "TypeType": "type"}


def to_cel(a):
    t = a["t"]
    if t == "int":
        return ct.IntType(a["v"])
    if t == "uint":
        return ct.UintType(a["v"])
    if t == "double":
        return ct.DoubleType(a["v"])
    if t == "bool":
        return ct.BoolType(a["v"])
    if t == "null":
        return None
    if t == "string":
        return ct.StringType(a["v"])
    if t == "bytes":
        return ct.BytesType(a["v"])
    if t == "list":
        return ct.ListType([to_cel(x) for x in a["v"]])
    if t == "map":
        return ct.MapType({to_cel(k): to_cel(v) for k, v in a["v"]})
    if t == "timestamp":
        return ct.TimestampType(EPOCH + datetime.timedelta(microseconds=a["v"]))
    if t == "duration":
        return ct.DurationType(datetime.timedelta(microseconds=a["v"]))
    raise ValueError(t)


def project(v):
    """celpy (or native) object -> abstract value with the Python class recorded under 'py'."""
    py = type(v).__name__
    if v is None:
        return {"t": "null", "py": py}
    if isinstance(v, (ct.BoolType, bool)):
        return {"t": "bool", "v": bool(v), "py": py}
    if isinstance(v, ct.UintType):
        return {"t": "uint", "v": int(v), "py": py}
    if isinstance(v, (ct.IntType, int)):
        return {"t": "int", "v": int(v), "py": py}
    if isinstance(v, (ct.DoubleType, float)):
        return {"t": "double", "v": float(v), "py": py}
    if isinstance(v, (ct.StringType, str)):
        return {"t": "string", "v": str(v), "py": py}
    if isinstance(v, (ct.BytesType, bytes)):
        return {"t": "bytes", "v": bytes(v), "py": py}
    if isinstance(v, ct.TimestampType) or isinstance(v, datetime.datetime):
        d = v - EPOCH if v.tzinfo is not None else v.replace(tzinfo=UTC) - EPOCH
        return {"t": "timestamp", "v": (d.days * 86400 + d.seconds) * 10**6 + d.microseconds, "py": py}
    if isinstance(v, (ct.DurationType, datetime.timedelta)):
        return {"t": "duration", "v": (v.days * 86400 + v.seconds) * 10**6 + v.microseconds, "py": py}
    if isinstance(v, (ct.ListType, list, tuple)):
        return {"t": "list", "v": [project(x) for x in v], "py": py}
    if isinstance(v, (ct.MapType, dict)):
        return {"t": "map", "v": [[project(k), project(x)] for k, x in v.items()], "py": py}
    if isinstance(v, type):
        return {"t": "type", "v": TYPE_NAMES.get(v.__name__, v.__name__), "py": py}
    if isinstance(v, ct.TypeType) or callable(v):
        return {"t": "type", "v": getattr(v, "__name__", str(v)), "py": py}
    return {"t": "other", "v": repr(v)[:100], "py": py}


def strip_py(a):
    if isinstance(a, dict):
        return {k: strip_py(v) for k, v in a.items() if k != "py"}
    if isinstance(a, (list, tuple)):
        return [strip_py(x) for x in a]
    return a


def same(a, b):
    """Abstract equality: type tag + mathematical value (double: NaN = NaN, -0.0 # +0.0)."""
    if a.get("t") != b.get("t"):
        return False
    t = a["t"]
    if t in ("null", "err"):
        return True
    if t == "double":
        x, y = a["v"], b["v"]
        if math.isnan(x) or math.isnan(y):
            return math.isnan(x) and math.isnan(y)
        return x == y and math.copysign(1, x) == math.copysign(1, y)
    if t == "list":
        return len(a["v"]) == len(b["v"]) and all(same(x, y) for x, y in zip(a["v"], b["v"]))
    if t == "map":
        if len(a["v"]) != len(b["v"]):
            return False
        rest = list(b["v"])
        for k, v in a["v"]:
            for j, (k2, v2) in enumerate(rest):
                if same(k, k2):
                    if not same(v, v2):
                        return False
                    del rest[j]
                    break
            else:
                return False
        return True
    return a["v"] == b["v"]


# ---- doubles as exact dyadics ----
def dyadic(x: float) -> dict:
    if math.isnan(x):
        return {"c": "nan", "neg": False, "m": [], "e": 0}
    neg = math.copysign(1, x) < 0
    if math.isinf(x):
        return {"c": "inf", "neg": neg, "m": [], "e": 0}
    if x == 0:
        return {"c": "zero", "neg": neg, "m": [], "e": 0}
    n, d = abs(x).as_integer_ratio()
    e = -(d.bit_length() - 1)
    tz = (n & -n).bit_length() - 1
    n >>= tz
    e += tz
    return {"c": "fin", "neg": neg, "m": limbs(n), "e": e}


def undyadic(d) -> float:
    c = d["c"]
    if c == "nan":
        return math.nan
    s = -1.0 if d["neg"] else 1.0
    if c == "inf":
        return s * math.inf
    if c == "zero":
        return s * 0.0
    return s * math.ldexp(float(unbig({"m": d["m"]})), d["e"])


# ---- wire form (dumps / traces) ----
def dec(w):
    """wire (TLA+ record as parsed JSON) -> abstract"""
    t = w["t"]
    if t in ("int", "uint"):
        return {"t": t, "v": unbig(w)}
    if t == "double":
        return {"t": t, "v": undyadic(w)}
    if t == "bool":
        return {"t": t, "v": w["v"]}
    if t in ("null", "err", "indef"):
        return {"t": t}
    if t == "string":
        return {"t": t, "v": "".join(chr(c) for c in w["v"])}
    if t == "bytes":
        return {"t": t, "v": bytes(w["v"])}
    if t == "list":
        return {"t": t, "v": [dec(x) for x in w["v"]]}
    if t == "map":
        return {"t": t, "v": [[dec(k), dec(v)] for k, v in w["v"]]}
    if t == "timestamp":
        return {"t": t, "v": unbig(w)}
    if t == "duration":
        return {"t": t, "v": unbig(w)}
    if t == "type":
        return {"t": t, "v": w["v"]}
    raise ValueError(w)


def enc(a):
    """abstract -> wire"""
    t = a["t"]
    if t in ("int", "uint", "timestamp", "duration"):
        return {"t": t, **big(a["v"])}
    if t == "double":
        return {"t": t, **dyadic(a["v"])}
    if t == "bool":
        return {"t": t, "v": a["v"]}
    if t in ("null", "err", "indef"):
        return {"t": t}
    if t == "string":
        return {"t": t, "v": [ord(c) for c in a["v"]]}
    if t == "bytes":
        return {"t": t, "v": list(a["v"])}
    if t == "list":
        return {"t": t, "v": [enc(x) for x in a["v"]]}
    if t == "map":
        return {"t": t, "v": [[enc(k), enc(v)] for k, v in a["v"]]}
    if t == "type":
        return {"t": t, "v": a["v"]}
    return {"t": "other"}


def outcome_abs(o: Outcome):
    """Outcome -> abstract value, {"t":"err"}, or {"t":"exc",...}/{"t":"parse"}"""
    if o.kind == "val":
        return project(o["v"])
    if o.kind == "err":
        return {"t": "err"}
    if o.kind == "parse":
        return {"t": "parse", "line": o["line"], "column": o["column"]}
    return {"t": "exc", "cls": o["cls"], "phase": o["phase"], "msg": o.get("msg", "")}


# ---- CEL source for an abstract value ----
INT_HEX = False          # set by a check that wants its integer literals spelled in hexadecimal
UINT_SUFFIX = "u"        # ... or its uint literals with the upper-case suffix
TS_OFFSETS = [0, 60, -210, 345]      # minutes: Z, +01:00, -03:30, +05:45


def lit(a) -> str:
    t = a["t"]
    if t == "int":
        n = a["v"]
        if INT_HEX:
            return "(-0x%X)" % -n if n < 0 else "0x%x" % n
        if n == -(2**63):
            return "(-9223372036854775807 - 1)"
        return "(%d)" % n if n < 0 else "%d" % n
    if t == "uint":
        return ("0x%X%s" if INT_HEX else "%d%s") % (a["v"], UINT_SUFFIX)
    if t == "double":
        x = a["v"]
        if math.isnan(x):
            return "(0.0/0.0)"
        if math.isinf(x):
            return "(1.0/0.0)" if x > 0 else "(-1.0/0.0)"
        r = repr(x)
        if "e" not in r and "." not in r:
            r += ".0"
        return "(%s)" % r if x < 0 or r.startswith("-") else r
    if t == "bool":
        return "true" if a["v"] else "false"
    if t == "null":
        return "null"
    if t == "string":
        return strlit(a["v"])
    if t == "bytes":
        return 'b"' + "".join("\\x%02x" % c for c in a["v"]) + '"'
    if t == "list":
        return "[" + ", ".join(lit(x) for x in a["v"]) + "]"
    if t == "map":
        return "{" + ", ".join("%s: %s" % (lit(k), lit(v)) for k, v in a["v"]) + "}"
    if t == "timestamp":
        # the same instant written in one of four zones (the zone a timestamp was written in is no part of its value)
        us = a["v"]
        off = TS_OFFSETS[(us // 10**6 + us // 86400000000) % len(TS_OFFSETS)]
        lo, hi = -62135596800 * 10**6 + 2 * 86400 * 10**6, 253402300799 * 10**6 - 2 * 86400 * 10**6
        if off and lo < us < hi:
            text = rfc3339(us + off * 60 * 10**6)[:-1] + "%s%02d:%02d" % ("+" if off > 0 else "-", abs(off) // 60, abs(off) % 60)
            return 'timestamp("%s")' % text
        return 'timestamp("%s")' % rfc3339(us)
    if t == "duration":
        us = a["v"]
        sign = "-" if us < 0 else ""
        us = abs(us)
        if us % 10**6 == 0:
            return 'duration("%s%ds")' % (sign, us // 10**6)
        if us < 10**6:
            return 'duration("%s%dus")' % (sign, us)
        # seconds with a six-digit fraction: duration text denotes exactly the number it spells (C11)
        return 'duration("%s%d.%06ds")' % (sign, us // 10**6, us % 10**6)
    if t == "type":
        return a["v"]
    raise ValueError(a)


def strlit(s: str) -> str:
    out = ['"']
    for ch in s:
        o = ord(ch)
        if ch == '"':
            out.append('\\"')
        elif ch == "\\":
            out.append("\\\\")
        elif 32 <= o < 127:
            out.append(ch)
        elif o < 0x10000:
            out.append("\\u%04x" % o)
        else:
            out.append("\\U%08x" % o)
    out.append('"')
    return "".join(out)


def rfc3339(us: int) -> str:
    """micros since epoch -> RFC 3339 UTC text (own calendar arithmetic, no datetime)."""
    days, rem = divmod(us, 86400 * 10**6)
    sec, micro = divmod(rem, 10**6)
    y, m, d = civil_from_days(days)
    frac = (".%06d" % micro) if micro else ""
    return "%04d-%02d-%02dT%02d:%02d:%02d%sZ" % (y, m, d, sec // 3600, sec // 60 % 60, sec % 60, frac)


def civil_from_days(z: int):
    z += 719468
    era = z // 146097
    doe = z - era * 146097
    yoe = (doe - doe // 1460 + doe // 36524 - doe // 146096) // 365
    y = yoe + era * 400
    doy = doe - (365 * yoe + yoe // 4 - yoe // 100)
    mp = (5 * doy + 2) // 153
    d = doy - (153 * mp + 2) // 5 + 1
    m = mp + 3 if mp < 10 else mp - 9
    return (y + (1 if m <= 2 else 0), m, d)


def days_from_civil(y, m, d):
    y -= 1 if m <= 2 else 0
    era = y // 400
    yoe = y - era * 400
    doy = (153 * (m - 3 if m > 2 else m + 9) + 2) // 5 + d - 1
    doe = yoe * 365 + yoe // 4 - yoe // 100 + doy
    return era * 146097 + doe - 719468


# ---- abstract program (specs/CelEval.tla AST, wire form) -> CEL source, fully parenthesised
def render_ast(e) -> str:
    k = e["k"]
    if k == "lit":
        return lit(dec(e["v"]))
    if k == "var":
        return e["n"]
    if k == "list":
        return "[" + ", ".join(render_ast(x) for x in e["xs"]) + "]"
    if k == "map":
        return "{" + ", ".join("%s: %s" % (render_ast(a), render_ast(b)) for a, b in e["es"]) + "}"
    if k == "un":
        return "(%s%s)" % (e["op"], atom(e["x"]))
    if k == "bin":
        return "(%s %s %s)" % (render_ast(e["l"]), e["op"], render_ast(e["r"]))
    if k == "cond":
        return "(%s ? %s : %s)" % (render_ast(e["c"]), render_ast(e["a"]), render_ast(e["b"]))
    if k == "idx":
        return "%s[%s]" % (atom(e["x"]), render_ast(e["i"]))
    if k == "sel":
        return "%s.%s" % (atom(e["x"]), field(e["f"]))
    if k == "has":
        return "has(%s.%s)" % (atom(e["x"]), field(e["f"]))
    if k == "call":
        return "%s(%s)" % (e["f"], ", ".join(render_ast(a) for a in e["args"]))
    if k == "mcall":
        return "%s.%s(%s)" % (atom(e["x"]), e["f"], ", ".join(render_ast(a) for a in e["args"]))
    if k == "macro":
        return "%s.%s(%s, %s)" % (atom(e["x"]), e["m"], e["v"], render_ast(e["body"]))
    if k == "obj":
        return "%s{%s}" % (e["n"], ", ".join("%s: %s" % (f, render_ast(x)) for f, x in e["fs"]))
    raise ValueError(k)


def field(f):
    return f if isinstance(f, str) else "".join(chr(c) for c in f)


def atom(e):
    s = render_ast(e)
    if e["k"] in ("var", "list", "map", "call", "idx", "sel", "mcall", "macro", "has", "obj") or s.startswith("("):
        return s
    if e["k"] == "lit" and e["v"]["t"] in ("list", "map", "string", "bytes", "bool", "null", "timestamp", "duration"):
        return s
    return "(" + s + ")"


def strip_py_dec(w):
    """wire value -> abstract without py (for comparing call arguments)"""
    return strip_py(dec(w))


def enc_out(a):
    """abstract outcome -> JSON-able wire form (values as wire records, errors / exceptions as tagged records)"""
    if a is None:
        return {"t": "none"}
    if a["t"] in ("exc", "parse", "ok", "none"):
        return {k: v for k, v in a.items() if k in ("t", "cls", "phase")}
    return enc(strip_py(a))


def dec_out(w):
    if w["t"] in ("exc", "parse", "ok", "none"):
        return dict(w)
    return dec(w)


def evalx_root(prog):
    from . import evalx
    k = evalx.node_kinds(prog)
    return k[0] if k else "lit"
