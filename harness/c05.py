"""C05 evaluation is a function of expression and bindings, independent of history.  Spec: CelApi.tla; trace Trace_C05."""
from __future__ import annotations

import copy
import json
import os
import random
import subprocess
import sys
import time
from concurrent.futures import ThreadPoolExecutor

from . import celx
from .celx import ct, celpy
from .core import Ctx, read_dump, write_ndjson, trace_verdict, MachineryError, NCPU

EXPRS = {"const": "42", "var": "x", "dotref": "a.b", "macro": "[1, 2].map(x, x + 1)", "has": "has(m.f)", "cond": 'x > 0 ? "p" : "n"',
         # programs built with / without application functions (a list: one overriding a built-in, one new name)
         "sizeplain": 'size("h\u00e9llo")', "sizeov": 'size("h\u00e9llo")', "twiceplain": "twice(21)", "twiceov": "twice(21)",
         "tzplus": 'timestamp("2009-02-13T12:00:00Z").getHours("+02:00")', "tzminus": 'timestamp("2009-02-13T12:00:00Z").getHours("-02:00")',
         "hasdiv": "has(m.f) ? 10 / m.f : -1"}
WITH_FUNCTIONS = {"sizeov", "twiceov"}


def size(text):
    """application function overriding the built-in: the size in UTF-8 octets"""
    return ct.IntType(len(text.encode("utf-8")))


def twice(n):
    return ct.IntType(2 * n)
DECLS = ["none", "dotted", "xint", "pkg"]
BINDINGS = ["empty", "x1", "xneg", "ab7", "ab8x2", "mf", "mf0", "amap", "amapab"]


def binding(b):
    I, S, M = ct.IntType, ct.StringType, ct.MapType
    return {"empty": {}, "x1": {"x": I(1)}, "xneg": {"x": I(-5)}, "ab7": {"a.b": I(7)}, "ab8x2": {"a.b": I(8), "x": I(2)},
            "mf": {"m": M({S("f"): I(1)})}, "mf0": {"m": M({S("f"): I(0)})}, "amap": {"a": M({S("b"): I(9)})}, "amapab": {"a": M({S("b"): I(9)}), "a.b": I(7)}}[b]


def new_env(r, d):
    kw = {}
    if d == "dotted":
        kw["annotations"] = {"a.b": ct.IntType}
    elif d == "xint":
        kw["annotations"] = {"x": ct.IntType}
    elif d == "pkg":
        kw["package"] = "p"
    return celpy.Environment(runner_class=celx.RUNNERS[r], **kw)


def snapshot(b):
    return json.dumps(celx.strip_py(celx.project(b)), sort_keys=True, default=str), [id(v) for v in b.values()]


def execute(call, st):
    """One API call on the live objects of this process -> abstract outcome (or None)"""
    op = call[0]
    if op == "NewEnv":
        o = celx.guarded(lambda: new_env(call[1], call[2]), "NewEnv")
        st["envs"].append(o.get("v"))
        return {"t": "ok"} if o.kind == "val" else celx.outcome_abs(o)
    if op == "Program":
        env = st["envs"][call[1] - 1]

        def build():
            if len(call) > 3:       # "shared": programs of one environment built from ONE compiled syntax tree per expression text
                key = (call[1], EXPRS[call[2]])
                if key not in st.setdefault("asts", {}):
                    st["asts"][key] = env.compile(EXPRS[call[2]])
                ast = st["asts"][key]
            else:
                ast = env.compile(EXPRS[call[2]])
            return env.program(ast, functions=[size, twice] if call[2] in WITH_FUNCTIONS else None)
        o = celx.guarded(build, "program")
        st["progs"].append(o.get("v"))
        return {"t": "ok"} if o.kind == "val" else ({"t": "exc", "cls": "CELEvalError", "phase": "program", "msg": ""} if o.kind == "err" else celx.outcome_abs(o))
    prog = st["progs"][call[1] - 1]
    if prog is None:
        return {"t": "exc", "cls": "NoProgram", "phase": "program", "msg": "construction failed earlier"}
    b = binding(call[2])
    before = snapshot(b)
    o = celx.guarded(lambda: prog.evaluate(b), "evaluate")
    a = celx.strip_py(celx.outcome_abs(o))
    if snapshot(b) != before:
        a = {"t": "exc", "cls": "BindingsModified", "phase": "evaluate", "msg": ""}
    return a


def alone_main(argv):
    """python -m harness.c05 alone '<json tuple>': one evaluation in a fresh interpreter"""
    r, d, e, b = json.loads(argv[0])
    st = {"envs": [], "progs": []}
    execute(("NewEnv", r, d), st)
    execute(("Program", 1, e), st)
    out = execute(("Evaluate", 1, b), st)
    print("ALONE " + json.dumps(celx.enc_out(out)))
    return 0


def alone_outcomes(tuples):
    def one(t):
        p = subprocess.run([sys.executable, "-m", "harness.c05", "alone", json.dumps(t)], capture_output=True, text=True,
                           cwd=os.path.dirname(os.path.dirname(os.path.abspath(__file__))))
        for line in p.stdout.splitlines():
            if line.startswith("ALONE "):
                return tuple(t), json.loads(line[6:])
        raise MachineryError("fresh-process evaluation failed for %s: %s" % (t, p.stderr[-300:]))
    with ThreadPoolExecutor(NCPU) as ex:
        return dict(ex.map(one, tuples))


# ---- replay: every maximal history runs in its own process, forked from a parent that has only imported the library
#      (so each history executes in a process that has seen exactly that history; hidden process-wide state is never reset by hand)
def _run_history(hist):
    st = {"envs": [], "progs": []}
    out = []
    for c in hist:
        got = execute(tuple(c), st)
        out.append(celx.enc_out(got) if c[0] == "Evaluate" else got)
    return hist, out


def walk_main(argv):
    """python -m harness.c05 walk <histories.json> <out.jsonl>
    Every history runs in its own process, forked from this one, which has only imported the library: a history executes in
    a process that has seen exactly that history, and hidden process-wide state is never reset by hand.
    (fork() is expensive in this sandbox, about 20 per second whatever the parallelism, hence one fork per history.)"""
    hists = json.load(open(argv[0]))
    fd = os.open(argv[1], os.O_WRONLY | os.O_CREAT | os.O_TRUNC | os.O_APPEND)
    running = 0
    for hist in hists:
        while running >= NCPU:
            os.wait()
            running -= 1
        pid = os.fork()
        if pid == 0:
            try:
                h, out = _run_history(hist)
                os.write(fd, (json.dumps({"hist": h, "outs": out}) + "\n").encode())
            finally:
                os._exit(0)
        running += 1
    while running:
        os.wait()
        running -= 1
    os.close(fd)
    return 0


def fork_replay(hists, workdir, tag):
    """run each history in its own process; returns one record per (history prefix ending in a call)"""
    inp, outp = workdir / ("histories_%s.json" % tag), workdir / ("walk_%s.jsonl" % tag)
    inp.write_text(json.dumps(hists))
    p = subprocess.run([sys.executable, "-m", "harness.c05", "walk", str(inp), str(outp)], capture_output=True, text=True,
                       cwd=os.path.dirname(os.path.dirname(os.path.abspath(__file__))))
    if p.returncode != 0:
        raise MachineryError("history walker failed: " + p.stderr[-500:])
    results, nrec = [], 0
    for line in outp.read_text().splitlines():
        rec = json.loads(line)
        nrec += 1
        for j in range(1, len(rec["hist"]) + 1):
            results.append({"hist": rec["hist"][:j], "got": rec["outs"][j - 1]})
    if nrec != len(hists):
        raise MachineryError("history walker returned %d of %d histories" % (nrec, len(hists)))
    return results


def maximal(hists):
    prefixes = set()
    for h in hists:
        for j in range(1, len(h)):
            prefixes.add(json.dumps(h[:j]))
    return [h for h in hists if h and json.dumps(h) not in prefixes]


def context_of(hist):
    """(runner, decl, expr, binding) of the last Evaluate of a history, plus what else happened before"""
    envs, progs = [], []
    for c in hist:
        if c[0] == "NewEnv":
            envs.append((c[1], c[2]))
        elif c[0] == "Program":
            progs.append((c[1], c[2]))
    last = hist[-1]
    env_i, expr = progs[last[1] - 1]
    r, d = envs[env_i - 1]
    return r, d, expr, last[2]


def describe(hist):
    """structural signature of how the history differs from the evaluation alone"""
    r, d, e, b = context_of(hist)
    runners = sorted(set(c[1] for c in hist if c[0] == "NewEnv"))
    first_runner = next(c[1] for c in hist if c[0] == "NewEnv")
    prev_evals = [c for c in hist[:-1] if c[0] == "Evaluate" and c[1] == hist[-1][1]]
    flags = []
    if len(runners) > 1:
        flags.append("both-runner-kinds(first=%s)" % first_runner)
    if prev_evals:
        flags.append("program-evaluated-before(%s)" % ",".join(sorted(set(c[2] for c in prev_evals))))
    if sum(1 for c in hist if c[0] == "NewEnv") > 1:
        flags.append("other-environment")
    return "runner=%s decl=%s expr=%s binding=%s after{%s}" % (r, d, e, b, ";".join(flags))


def run(ctx: Ctx) -> int:
    q = ctx.quick
    from . import evalx
    from .core import printed_values
    # 1. the design: every history to depth 4 is model-checked (HistoryFree is an action property of the state machine)
    r = ctx.tlc("CelApi", "SPECIFICATION Spec\nCONSTANTS MaxEnv = 2 MaxProg = 2 Depth = 4\nINVARIANT TypeOK\nPROPERTY HistoryFree\nCHECK_DEADLOCK FALSE\n",
                dump=True, name="all API histories to depth 4")
    states = read_dump(r.dump)
    spec_out = {}
    for s_ in states:
        h = s_["hist"]
        if h and h[-1][0] == "Evaluate":
            rr, d, e, b = context_of(h)
            spec_out[(d, e, b)] = s_["out"]
    tuples = [[rr, d, e, b] for rr in "IC" for d in DECLS for e in EXPRS for b in BINDINGS]
    # 2. spec -> code (a): the short histories, each in its own process
    short = maximal([s_["hist"] for s_ in states if len(s_["hist"]) <= 3])
    if q:
        short = short[::20]
        ctx.cov["replay_note"] = "quick: every 20th maximal history of depth <= 3 replayed; all histories to depth 4 are model-checked"
    # 3. spec -> code (b): long behaviours of the same state machine generated by TLC in simulation mode
    nsim = 40 if q else 400
    sim = ctx.tlc("CelApi", "SPECIFICATION Spec\nCONSTANTS MaxEnv = 4 MaxProg = 6 Depth = 30\nINVARIANT Emit\nCHECK_DEADLOCK FALSE\n",
                  workers=1, simulate="num=%d" % nsim, depth=40, seed=ctx.seed % 100000, name="simulated long behaviours")
    longs, seen = [], set()
    for v in printed_values(sim.stdout):
        if isinstance(v, list) and v and v[0] == "HIST":
            k = json.dumps(v[1][:-1])
            if seen.__contains__(k) and sum(1 for x in longs if json.dumps(x[:-1]) == k) >= 3:
                continue
            seen.add(k)
            longs.append(v[1])
    longs = longs[: (80 if q else 3000)]
    # 3b. every ordered pair of bindings evaluated back to back on one program, for every (runner, declarations, expression):
    #     an Eulerian sequence over the bindings -- 48 behaviours of the same state machine (one environment, one program)
    seq = []
    for i1 in range(len(BINDINGS)):
        for i2 in range(len(BINDINGS)):
            seq += [BINDINGS[i1], BINDINGS[i2]]
    pairwise = [[["NewEnv", rr, d], ["Program", 1, e]] + [["Evaluate", 1, b] for b in seq] for rr in "IC" for d in DECLS for e in EXPRS]
    # 3c. every ordered pair of expressions as two programs in two environments (every pair of runner classes), the second built
    #     after the first, both evaluated afterwards: what one program was given (functions, declarations) must not reach the other
    cross = [[["NewEnv", r1, "none"], ["Program", 1, e1], ["NewEnv", r2, "none"], ["Program", 2, e2], ["Evaluate", 2, "x1"], ["Evaluate", 1, "x1"]]
             for r1 in "IC" for r2 in "IC" for e1 in EXPRS for e2 in EXPRS if e1 != e2]
    if q:
        special = WITH_FUNCTIONS | {"tzplus", "tzminus"}
        cross = [h for j, h in enumerate(cross) if j % 9 == 0 or ((h[1][2] in special) != (h[3][2] in special) and j % 2 == 0)
                 or {h[1][2], h[3][2]} in ({"tzplus", "tzminus"}, {"sizeov", "sizeplain"}, {"twiceov", "twiceplain"})]
    pairwise = [h if h[1][2] in ("const", "var", "dotref", "macro", "has", "cond", "hasdiv") else h[:16] for h in pairwise
                if h[1][2] in ("const", "var", "dotref", "macro", "has", "cond", "hasdiv") or h[0][2] == "none"]
    # 3d. two programs of ONE environment built from one compiled syntax tree (same text), with and without application functions
    same_tree = [[["NewEnv", r1, "none"], ["Program", 1, e1, "shared"], ["Program", 1, e2, "shared"], ["Evaluate", 2, "x1"], ["Evaluate", 1, "x1"], ["Evaluate", 2, "empty"]]
                 for r1 in "IC" for e1, e2 in (("sizeplain", "sizeov"), ("sizeov", "sizeplain"), ("twiceplain", "twiceov"), ("twiceov", "twiceplain"), ("const", "const"))]
    longs = pairwise + cross + same_tree + longs
    ctx.cov["same_tree_histories"] = len(same_tree)
    ctx.cov["cross_program_histories"] = len(cross)
    ctx.cov["pairwise_binding_histories"] = len(pairwise)
    needed = set()
    for h in short + longs:
        for j, c in enumerate(h):
            if c[0] == "Evaluate":
                needed.add(tuple(context_of(h[: j + 1])))
    if q:
        # quick: where the specification fixes the outcome it IS the oracle; the same call made alone is only needed where it does not
        def definite(t):
            e_ = spec_out.get((t[1], t[2], t[3]))
            return e_ is not None and e_.get("t") not in ("indef", "none")
        tuples = [list(t) for t in sorted(needed) if not definite(t)]
        ctx.cov["replay_note_alone"] = "quick: 'alone' oracle processes only for the %d (runner, declarations, expression, bindings) whose outcome the specification leaves open" % len(tuples)
    # the "alone" oracle: the evaluation performed alone in a process forked from a parent that has only imported the library;
    # a sample of them is cross-checked against truly fresh interpreters (new process, new import)
    alone_runs = fork_replay([[["NewEnv", t[0], t[1]], ["Program", 1, t[2]], ["Evaluate", 1, t[3]]] for t in tuples], ctx.work, "alone")
    alone = {}
    for rec in alone_runs:
        if len(rec["hist"]) == 3:
            alone[tuple(context_of(rec["hist"]))] = rec["got"]
    rs = random.Random(ctx.seed)
    fresh = alone_outcomes(rs.sample(tuples, min(len(tuples), 8 if q else 60)))
    for k, v in fresh.items():
        if alone[k] != v:
            raise MachineryError("forked 'alone' oracle disagrees with a fresh interpreter for %s: %s vs %s" % (k, alone[k], v))
    ctx.cov["fresh_interpreter_cross_checks"] = len(fresh)
    results = fork_replay(short, ctx.work, "short") + fork_replay(longs, ctx.work, "long")
    nev = 0
    checked = set()
    for rec in results:
        hist = rec["hist"]
        k = json.dumps(hist)
        if k in checked:
            continue
        checked.add(k)
        last = hist[-1]
        if last[0] != "Evaluate":
            if rec["got"].get("t") != "ok":
                ctx.disagree("%s fails: %s after{%s}" % (last[0], rec["got"].get("cls"), ",".join(sorted(set(c[1] for c in hist if c[0] == "NewEnv")))), {"history": hist[-12:], "observed": rec["got"]})
            continue
        nev += 1
        rr, d, e, b = context_of(hist)
        got = rec["got"]
        if (rr, d, e, b) in alone and got != alone[(rr, d, e, b)]:
            ctx.disagree("differs-from-alone " + describe(hist), {"history": hist[-12:], "history_length": len(hist), "observed": got, "alone": alone[(rr, d, e, b)]})
        exp = spec_out.get((d, e, b))
        if exp is not None and exp.get("t") not in ("indef", "none"):
            if not evalx.agrees(celx.dec(exp), celx.dec_out(got)):
                ctx.disagree("differs-from-spec " + describe(hist), {"history": hist[-12:], "history_length": len(hist), "observed": got, "expected": exp})
    ctx.cov["traces_validated_against_impl"] += len(short) + len(longs)
    ctx.cov["evaluations"] += len(checked)
    ctx.cov["short_histories_replayed"] = len(short)
    ctx.cov["simulated_long_histories_replayed"] = len(longs)
    ctx.cov["evaluate_steps_compared"] = nev
    ctx.cov["fresh_process_oracles"] = len(alone)
    ctx.cov["processes_forked"] = len(short) + len(longs)
    for h in short[:2] + longs[:1]:
        ctx.sample({"history": h[:8], "length": len(h)})
    # code -> spec: long random histories, each in one process, validated by the CelApi state machine in TLC
    rng = random.Random(ctx.seed)
    nh = 40 if q else 1500
    lines, meta = [], []

    def one_history(seed):
        rg = random.Random(seed)
        st = {"envs": [], "progs": []}
        evs = [{"op": "Reset"}]
        hist = []
        for _ in range(rg.randint(20, 60)):
            k = rg.random()
            if not st["envs"] or (k < 0.15 and len(st["envs"]) < 6):
                c = ("NewEnv", rg.choice("IC"), rg.choice(DECLS))
                execute(c, st)
                evs.append({"op": "NewEnv", "r": c[1], "d": c[2]})
            elif not st["progs"] or (k < 0.4 and len(st["progs"]) < 8):
                c = ("Program", rg.randint(1, len(st["envs"])), rg.choice(list(EXPRS)))
                execute(c, st)
                evs.append({"op": "Program", "i": c[1], "e": c[2]})
            else:
                c = ("Evaluate", rg.randint(1, len(st["progs"])), rg.choice(BINDINGS))
                got = execute(c, st)
                evs.append({"op": "Evaluate", "p": c[1], "b": c[2], "out": celx.enc_out(got)})
            hist.append(list(c))
        return evs, hist
    from .core import pmap
    seeds = [rng.randrange(10**9) for _ in range(nh)]
    for evs, hist in pmap(_history_worker, seeds, chunk=1):
        for j, e in enumerate(evs):
            lines.append(e)
            meta.append((hist, j))
    tf = ctx.work / "trace.ndjson"
    write_ndjson(tf, lines)
    tr = ctx.tlc("Trace_C05", "INIT TInit\nNEXT TNext\nCONSTANTS MaxEnv = 99 MaxProg = 99 Depth = 0\nPOSTCONDITION Post\nCHECK_DEADLOCK FALSE\n", workers=1,
                 env={"TRACE_FILE": str(tf)}, name="trace validation (long histories)")
    rej, cons = trace_verdict(tr.stdout, len(lines))
    for idx, exp in rej:
        hist, j = meta[idx - 1]
        h = [c for c in hist[:j + 1] if c[0] != "Reset"]
        ctx.disagree("differs-from-spec " + describe(h), {"history": h[-12:], "history_length": len(h), "observed": lines[idx - 1]["out"], "expected": exp, "from": "trace"})
        ctx.cov["long_history_rejections"] = ctx.cov.get("long_history_rejections", 0) + 1
    # and against the fresh-process oracle
    for e, (hist, j) in zip(lines, meta):
        if e["op"] == "Evaluate":
            h = [c for c in hist[:j + 1] if c[0] != "Reset"]
            key = tuple(context_of(h))
            if key in alone and e["out"] != alone[key]:
                ctx.disagree("differs-from-alone " + describe(h), {"history": h[-12:], "history_length": len(h), "observed": e["out"], "alone": alone[key], "from": "trace"})
    ctx.cov["traces_validated_against_impl"] += nh
    ctx.cov["evaluations"] += len(lines)
    ctx.cov["long_histories"] = nh
    ctx.cov["long_history_events"] = len(lines)
    ctx.assumptions += ["the fresh-process oracle is one evaluation per (runner, declarations, expression, bindings) tuple in a newly started interpreter",
                        "fork() costs ~50 ms in this sandbox: short histories are replayed to depth 3 (sampled in the quick tier), longer ones come from TLC's simulation mode and a random driver"]
    return ctx.finish(rule="TLC enumerates every history of NewEnv / Program / Evaluate calls up to the depth bound (2 runner classes x 4 declaration kinds x 6 "
                           "expressions x 7 bindings); the history tree is walked with fork() so each history runs in a process that saw exactly it; every "
                           "Evaluate is compared with the specification's Outcome and with the same evaluation alone in a fresh interpreter; the caller's "
                           "bindings are compared before/after; long random histories are validated by Trace_C05. distinct = distinct histories",
                      extra={"distinct_nontrivial": len(checked) + nh})


def _history_worker(seed):
    rg = random.Random(seed)
    st = {"envs": [], "progs": []}
    evs = [{"op": "Reset"}]
    hist = [["Reset"]]
    for _ in range(rg.randint(20, 60)):
        k = rg.random()
        if not st["envs"] or (k < 0.15 and len(st["envs"]) < 6):
            c = ("NewEnv", rg.choice("IC"), rg.choice(DECLS))
            execute(c, st)
            evs.append({"op": "NewEnv", "r": c[1], "d": c[2]})
        elif not st["progs"] or (k < 0.4 and len(st["progs"]) < 8):
            c = ("Program", rg.randint(1, len(st["envs"])), rg.choice(list(EXPRS)))
            execute(c, st)
            evs.append({"op": "Program", "i": c[1], "e": c[2]})
        else:
            c = ("Evaluate", rg.randint(1, len(st["progs"])), rg.choice(BINDINGS))
            got = execute(c, st)
            evs.append({"op": "Evaluate", "p": c[1], "b": c[2], "out": celx.enc_out(got)})
        hist.append(list(c))
    return evs, hist


def replay(path):
    d = json.load(open(path))
    c = d["case"]
    hist = [h for h in c["history"] if h[0] != "Reset"]
    pid = os.fork()
    if pid == 0:
        st = {"envs": [], "progs": []}
        got = None
        for call in hist:
            got = execute(tuple(call), st)
        print("in history:", celx.enc_out(got))
        os._exit(0)
    os.waitpid(pid, 0)
    key = context_of(hist)
    al = alone_outcomes([list(key)])[tuple(key)]
    print("alone     :", al)
    return 0


if __name__ == "__main__":
    if sys.argv[1] == "alone":
        sys.exit(alone_main(sys.argv[2:]))
    if sys.argv[1] == "walk":
        sys.exit(walk_main(sys.argv[2:]))
