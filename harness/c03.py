"""C03 compiled and interpreted runners produce the same outcome.  Spec: Trace_C03 (SameOutcome) + every generator model."""
from __future__ import annotations

import json
import random
import re

from . import celx, evalx, corpus
from .core import Ctx, read_dump, write_ndjson, trace_verdict, pmap


def wire(a):
    t = a["t"]
    if t == "exc":
        return {"t": "exc", "cls": a["cls"], "phase": a["phase"]}
    if t in ("err", "parse"):
        return {"t": t}
    if t in ("other",) or (t == "type" and a.get("py") not in ("type",)):
        return {"t": "opaque", "r": a.get("v", "")[:120] if isinstance(a.get("v"), str) else str(a.get("v"))[:120]}
    w = celx.enc(celx.strip_py(a))
    return w if opaque_free(w) else {"t": "opaque", "r": json.dumps(w, default=str)[:200]}


def opaque_free(w):
    if isinstance(w, dict):
        if w.get("t") == "other":
            return False
        return all(opaque_free(v) for v in w.values())
    if isinstance(w, list):
        return all(opaque_free(v) for v in w)
    return True


AGAIN = "__second_call_with_empty_bindings__"


def _observe(item):
    text, bind_w = item
    again = any(n == AGAIN for n, _ in bind_w)
    bind = {n: celx.to_cel(celx.dec(v)) for n, v in bind_w if n != AGAIN}
    out = {}
    for r in ("I", "C"):
        if not again:
            out[r] = celx.outcome_abs(celx.run(text, bind, r, cache=False))
            continue
        # the same program object evaluated a second time, with NO bindings: the outcome reported is the second one
        prog, fail = celx.program(text, r, cache=False)
        if prog is None:
            out[r] = celx.outcome_abs(fail)
            continue
        celx.guarded(lambda: prog.evaluate(dict(bind)))
        out[r] = celx.outcome_abs(celx.guarded(lambda: prog.evaluate({})))
    return out


def macro_misuse(text):
    """a macro name used with an argument list of the wrong shape (wrong count, or an iteration variable that is not an identifier)"""
    for m in re.finditer(r"\.(map|filter|all|exists_one|exists)\(", text):
        depth, j, args, cur = 1, m.end(), [], []
        while j < len(text) and depth:
            ch = text[j]
            if ch in "([{":
                depth += 1
            elif ch in ")]}":
                depth -= 1
                if depth == 0:
                    break
            if ch == "," and depth == 1:
                args.append("".join(cur))
                cur = []
            else:
                cur.append(ch)
            j += 1
        args.append("".join(cur))
        if len(args) != 2 or not re.fullmatch(r"\s*[_a-zA-Z][_a-zA-Z0-9]*\s*", args[0]):
            return True
    return False


def shape(text):
    """structural signature of an expression: its operator / function vocabulary"""
    if macro_misuse(text):
        return "macro-misuse"
    words = sorted(set(re.findall(r"has|dyn|map|filter|all|exists_one|exists|matches|timestamp|duration|\|\||&&|[?]|!(?!=)", text)))
    return " ".join(words)[:60] or "plain"


def run(ctx: Ctx) -> int:
    q = ctx.quick
    texts = []      # (source, text, bindings)

    skipped = {"extension": 0, "message": 0}

    def add(src, text, bind=()):
        if ".min(" in text or ".reduce(" in text:
            skipped["extension"] += 1      # celpy extensions, not CEL built-ins
            return
        if re.search(r"[A-Za-z_][\w.]*\s*\{", text):
            skipped["message"] += 1        # protobuf message construction: outside "activations of CEL values"
            return
        texts.append((src, text, list(bind)))
    # 1. the generator models of the other properties (nothing is enumerated by hand here)
    from . import c02, c09, c13, c04
    r = ctx.tlc("MC_C02", "SPECIFICATION Spec\nCONSTANTS SIZE = %d LEN = 3\n%s" % (3 if q else 4, c02.INV), dump=True, name="C02 nestings")
    for j, s in enumerate(read_dump(r.dump)):
        add("C02", c02.Render(j % 26).text(s["e"]), [("tt", {"t": "bool", "v": True}), ("ff", {"t": "bool", "v": False})])
    r = ctx.tlc("MC_C09", "SPECIFICATION Spec\nCONSTANT FAMILIES = {%s}\n%s" % (", ".join('"%s"' % f for f in c09.FAMILIES), c09.INV), dump=True, name="C09 templates")
    for s in read_dump(r.dump):
        add("C09", celx.render_ast(s["prog"]))
    r = ctx.tlc("MC_C13", c13.INV, dump=True, name="C13 typed roots")
    for s in read_dump(r.dump):
        add("C13", celx.render_ast(s["prog"]))
    r = ctx.tlc("MC_C04", 'SPECIFICATION Spec\nCONSTANTS MODE = "typed" LEN = 0\n' + c04.INV, dump=True, name="C04 ill-typed programs")
    for s in read_dump(r.dump):
        add("C04", celx.render_ast(s["prog"]))
    r = ctx.tlc("MC_C07", "SPECIFICATION Spec\nCONSTANTS LEN = 2\nCHECK_DEADLOCK FALSE\n", dump=True, name="C07 literal texts")
    for s in read_dump(r.dump):
        if s["valid"]:
            add("C07", "".join(chr(c) for c in s["text"]))
    from . import c07
    r = ctx.tlc("MC_C07N", c07.INVN, dump=True, name="C07 number literal spellings")
    for j, s in enumerate(read_dump(r.dump)):
        if s["kind"] in ("int", "float"):
            t = c07.s_of(s["text"])
            add("C07N", t if j % 3 else "[%s, 1].size() == 2 || 1 > %s" % (t, t))
    nmodel = len(texts)
    # 2. the repository's conformance corpus and seeded mutations of it; random nested programs
    rng = random.Random(ctx.seed)
    corp = [t for _, t in corpus.expressions()]
    for t in corp:
        add("corpus", t)
    toks_ops = ["||", "&&", "==", "!=", "<", ">", "+", "-", "*", "/", "%", "?", ":", "!"]
    for _ in range(400 if q else 8000):
        t = rng.choice(corp)
        ws = t.split(" ")
        if len(ws) > 2:
            j = rng.randrange(len(ws))
            ws[j] = rng.choice(toks_ops + ["1", "true", "null", "'a'", "[1]", "x"])
            add("mutated-corpus", " ".join(ws))
        if rng.random() < 0.3:
            add("wrapped-corpus", "(%s) || true" % t)
            add("wrapped-corpus", "has({'a': 1}.a) && !has({'a': 1}.b) ? (%s) : 0" % t if rng.random() < 0.2 else "[%s].size() == 1 || true" % t)
    from .c09 import L
    lv = [L("int", 1), L("uint", 1), L("double", 1.5), L("bool", True), {"k": "lit", "v": {"t": "null"}}, L("string", "a"), L("bytes", b"a"),
          {"k": "lit", "v": celx.enc({"t": "list", "v": [{"t": "int", "v": 1}, {"t": "int", "v": 0}]})},
          {"k": "lit", "v": celx.enc({"t": "map", "v": [[{"t": "string", "v": "a"}, {"t": "int", "v": 1}]]})},
          {"k": "bin", "op": "/", "l": L("int", 1), "r": L("int", 0)}, {"k": "var", "n": "v"}, {"k": "var", "n": "undeclared"}]
    for _ in range(1200 if q else 30000):
        p = c04.rand_nested(rng, lv, rng.randint(2, 4))
        add("random", celx.render_ast(p), [("v", {"t": "int", "v": rng.randint(-2, 2)})])
    # a sample of the programs that have bindings: evaluated once with them and then again, on the same program, without
    withb = [(src, t, b) for src, t, b in texts if b]
    for src, t, b in withb[:: max(1, len(withb) // (400 if q else 4000))]:
        texts.append(("second-call:" + src, t, list(b) + [(AGAIN, {"t": "bool", "v": True})]))
    obs = pmap(_observe, [(t, [(n, celx.enc(v)) for n, v in b]) for _, t, b in texts])
    lines = [{"oi": wire(o["I"]), "oc": wire(o["C"])} for o in obs]
    both_exc = sum(1 for ln in lines if ln["oi"]["t"] == "exc" and ln["oc"]["t"] == "exc")
    batch = 30000
    for s in range(0, len(lines), batch):
        tf = ctx.work / ("trace_%d.ndjson" % s)
        write_ndjson(tf, lines[s:s + batch])
        tr = ctx.tlc("Trace_C03", "INIT Init\nNEXT Next\nPOSTCONDITION Post\nCHECK_DEADLOCK FALSE\n", workers=1, env={"TRACE_FILE": str(tf)}, name="SameOutcome validation")
        rej, cons = trace_verdict(tr.stdout, len(lines[s:s + batch]))
        for idx, _ in rej:
            src, text, bind = texts[s + idx - 1]
            o = obs[s + idx - 1]
            a, b = lines[s + idx - 1]["oi"], lines[s + idx - 1]["oc"]

            def kd(w):
                return w["t"] if w["t"] in ("err", "exc", "parse", "opaque") else "val"
            extra = ""
            if b["t"] == "exc":
                extra = " %s@%s" % (b["cls"], b["phase"])
            if a["t"] == "exc":
                extra += " I:%s@%s" % (a["cls"], a["phase"])
            ctx.disagree("I=%s C=%s%s [%s]" % (kd(a), kd(b), extra, shape(text)), {"source": src, "cel": text, "bindings": bind, "interpreted": o["I"], "compiled": o["C"]})
    ctx.cov["traces_validated_against_impl"] += len(lines)
    ctx.cov["evaluations"] += 2 * len(lines)
    ctx.cov["programs_from_models"] = nmodel
    ctx.cov["programs_total"] = len(texts)
    ctx.cov["both_runners_python_exception"] = both_exc
    ctx.cov["skipped_out_of_scope"] = skipped
    for j in range(0, len(texts), max(1, len(texts) // 5)):
        ctx.sample({"source": texts[j][0], "cel": texts[j][1], "interpreted": lines[j]["oi"], "compiled": lines[j]["oc"]})
    ctx.assumptions += ["corpus expressions are evaluated without the feature files' bindings (unbound names are errors under both runners)",
                        "a Python exception under both runners is C04's subject and is only counted here"]
    return ctx.finish(rule="programs = the state spaces of the C02, C04, C07, C09, C13 models (TLC) + every conformance-corpus expression + seeded mutations "
                           "and wrappers of them + random nested programs; each is built and evaluated under both runner classes and TLC judges "
                           "SameOutcome on every event pair. distinct = distinct expression texts",
                      extra={"distinct_nontrivial": len(set(t for _, t, _ in texts))})


def replay(path):
    d = json.load(open(path))
    c = d["case"]
    o = _observe((c["cel"], [(n, celx.enc(v)) for n, v in c.get("bindings", [])]))
    print(c["cel"], json.dumps(o, default=str))
    a, b = wire(o["I"]), wire(o["C"])
    same = (a["t"] == b["t"] == "err") or (a == b)
    return 0 if same else 1
