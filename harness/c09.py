"""C09 lists, maps, strings and macros follow reference semantics.  Spec: CelEval.tla; model MC_C09; trace Trace_Eval."""
from __future__ import annotations

import random

from . import celx, evalx
from .core import Ctx, read_dump

FAMILIES = ["idx", "mapget", "in", "size", "concat", "mapctor", "strfn", "macro", "nested"]
INV = """INVARIANT MapKeepsSize
INVARIANT MapElementwise
INVARIANT FilterIsSubsequence
INVARIANT ExistsOneCounts
INVARIANT InIffExists
INVARIANT ConcatPrefix
INVARIANT BadIndexIsError
CHECK_DEADLOCK FALSE
"""


def L(t, v):
    return {"k": "lit", "v": celx.enc({"t": t, "v": v})}


def ilist(xs):
    return {"k": "lit", "v": celx.enc({"t": "list", "v": [{"t": "int", "v": x} for x in xs]})}


def rand_prog(rng):
    xs = [rng.randint(-3, 6) for _ in range(rng.randint(0, 6))]
    X = {"k": "var", "n": "x"}
    k = rng.randint(-3, 6)
    preds = [{"k": "bin", "op": rng.choice([">", "<", ">=", "<=", "==", "!="]), "l": X, "r": L("int", k)},
             {"k": "bin", "op": "==", "l": {"k": "bin", "op": "%", "l": X, "r": L("int", rng.choice([2, 3, 0]))}, "r": L("int", 0)},
             {"k": "bin", "op": "in", "l": X, "r": ilist([rng.randint(-3, 6) for _ in range(3)])},
             {"k": "bin", "op": "==", "l": {"k": "bin", "op": "/", "l": L("int", 6), "r": X}, "r": L("int", k)}]
    pred = rng.choice(preds)
    if rng.random() < 0.3:
        pred = {"k": "bin", "op": rng.choice(["&&", "||"]), "l": pred, "r": rng.choice(preds)}
    kind = rng.choice(["macro", "macro", "idx", "in", "concat", "str", "map", "nested", "size"])
    if kind == "macro":
        m = rng.choice(["all", "exists", "exists_one", "filter", "map"])
        body = pred if m != "map" or rng.random() < 0.3 else {"k": "bin", "op": rng.choice(["+", "*", "-"]), "l": X, "r": L("int", k)}
        return {"k": "macro", "m": m, "x": ilist(xs), "v": "x", "body": body}
    if kind == "idx":
        i = rng.choice([rng.randint(-2, 8), rng.randint(-2**63, 2**63 - 1), len(xs), len(xs) - 1, -1])
        return {"k": "idx", "x": ilist(xs), "i": L("int", i)}
    if kind == "in":
        return {"k": "bin", "op": "in", "l": L("int", k), "r": ilist(xs)}
    if kind == "concat":
        ys = [rng.randint(0, 3) for _ in range(rng.randint(0, 3))]
        e = {"k": "bin", "op": "+", "l": ilist(xs), "r": ilist(ys)}
        return rng.choice([e, {"k": "mcall", "x": e, "f": "size", "args": []}, {"k": "idx", "x": e, "i": L("int", rng.randint(0, 8))}])
    if kind == "str":
        alpha = "abé\U0001f431"
        s = "".join(rng.choice(alpha) for _ in range(rng.randint(0, 5)))
        t = "".join(rng.choice(alpha) for _ in range(rng.randint(0, 2)))
        if rng.random() < 0.3:
            return {"k": "call", "f": "size", "args": [L("string", s)]}
        if rng.random() < 0.3:
            return {"k": "mcall", "x": {"k": "bin", "op": "+", "l": L("string", s), "r": L("string", t)}, "f": rng.choice(["startsWith", "endsWith"]), "args": [L("string", rng.choice([s, t]))]}
        return {"k": "mcall", "x": L("string", s), "f": rng.choice(["contains", "startsWith", "endsWith"]), "args": [L("string", t)]}
    if kind == "map":
        keys = rng.sample(["a", "b", "c", "é"], rng.randint(0, 3))
        m = {"k": "lit", "v": celx.enc({"t": "map", "v": [[{"t": "string", "v": kk}, {"t": "int", "v": rng.randint(0, 3)}] for kk in keys]})}
        key = rng.choice(["a", "b", "zz"])
        return rng.choice([{"k": "idx", "x": m, "i": L("string", key)}, {"k": "sel", "x": m, "f": [ord(c) for c in key]},
                           {"k": "has", "x": m, "f": [ord(c) for c in key]}, {"k": "bin", "op": "in", "l": L("string", key), "r": m},
                           {"k": "map", "es": [[L("string", rng.choice("ab")), L("int", 1)], [L("string", rng.choice("ab")), L("int", 2)]]}])
    if kind == "nested":
        ys = [rng.randint(0, 4) for _ in range(rng.randint(0, 4))]
        Y = {"k": "var", "n": "y"}
        inner = {"k": "macro", "m": rng.choice(["filter", "exists", "all", "map"]), "x": ilist(ys), "v": rng.choice(["y", "x"]), "body": {"k": "bin", "op": ">", "l": rng.choice([Y, X]), "r": X}}
        if inner["v"] == "x":
            inner["body"] = {"k": "bin", "op": ">", "l": X, "r": L("int", k)}
        return {"k": "macro", "m": rng.choice(["map", "map", "exists", "all"]), "x": ilist(xs), "v": "x", "body": inner}
    return {"k": rng.choice(["call"]), "f": "size", "args": [ilist(xs)]}


def run(ctx: Ctx) -> int:
    q = ctx.quick
    r = ctx.tlc("MC_C09", "SPECIFICATION Spec\nCONSTANT FAMILIES = {%s}\n%s" % (", ".join('"%s"' % f for f in FAMILIES), INV),
                dump=True, name="program templates over value pools")
    states = [s for s in read_dump(r.dump) if not (s["prog"]["k"] == "lit" and s["prog"]["v"]["t"] == "null")]
    items = [(s["prog"], [], s["exp"]) for s in states]
    evalx.replay_states(ctx, items)
    ctx.cov["replayed_states"] = len(items)
    ctx.cov["indefinite_states"] = sum(1 for s in states if s["exp"]["t"] == "indef")
    for it in items[:: max(1, len(items) // 5)][:5]:
        ctx.sample({"cel": celx.render_ast(it[0]), "expected": it[2]})
    rng = random.Random(ctx.seed)
    progs = [(rand_prog(rng), []) for _ in range(1500 if q else 40000)]
    evalx.validate_trace(ctx, progs)
    ctx.assumptions += ["regular expressions (matches) are not modelled in this check (RE2 is outside the modelled fragment)",
                        "heterogeneous containers and ill-typed operands are indefinite in the spec and not compared"]
    return ctx.finish(rule="TLC instantiates program templates (index, lookup, in, size, concatenation, map construction, string functions, the five "
                           "macros, nested macros) over value pools incl. every boundary index; the laws of the statement are model invariants; "
                           "every program is evaluated under both runners; random programs are judged by Trace_Eval. distinct = distinct programs",
                      extra={"distinct_nontrivial": len(items) + len(progs)})


def replay(path):
    return evalx.replay_file(path)
