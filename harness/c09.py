"""C09 lists, maps, strings and macros follow reference semantics.  Spec: CelEval.tla; model MC_C09; trace Trace_Eval."""
from __future__ import annotations

import random

from . import celx, evalx
from .core import Ctx, read_dump, pmap

FAMILIES = ["idx", "mapget", "in", "size", "concat", "mapctor", "strfn", "macro", "nested"]
INV = """INVARIANT MapKeepsSize
INVARIANT MapElementwise
INVARIANT FilterIsSubsequence
INVARIANT ExistsOneCounts
INVARIANT InIffExists
INVARIANT ConcatPrefix
INVARIANT BadIndexIsError
CHECK_DEADLOCK FALSE
"""


def L(t, v):
    return {"k": "lit", "v": celx.enc({"t": t, "v": v})}


def ilist(xs):
    return {"k": "lit", "v": celx.enc({"t": "list", "v": [{"t": "int", "v": x} for x in xs]})}


def rand_prog(rng):
    xs = [rng.randint(-3, 6) for _ in range(rng.randint(0, 6))]
    X = {"k": "var", "n": "x"}
    k = rng.randint(-3, 6)
    preds = [{"k": "bin", "op": rng.choice([">", "<", ">=", "<=", "==", "!="]), "l": X, "r": L("int", k)},
             {"k": "bin", "op": "==", "l": {"k": "bin", "op": "%", "l": X, "r": L("int", rng.choice([2, 3, 0]))}, "r": L("int", 0)},
             {"k": "bin", "op": "in", "l": X, "r": ilist([rng.randint(-3, 6) for _ in range(3)])},
             {"k": "bin", "op": "==", "l": {"k": "bin", "op": "/", "l": L("int", 6), "r": X}, "r": L("int", k)}]
    pred = rng.choice(preds)
    if rng.random() < 0.3:
        pred = {"k": "bin", "op": rng.choice(["&&", "||"]), "l": pred, "r": rng.choice(preds)}
    kind = rng.choice(["macro", "macro", "idx", "in", "concat", "str", "map", "nested", "size"])
    if kind == "macro":
        m = rng.choice(["all", "exists", "exists_one", "filter", "map"])
        body = pred if m != "map" or rng.random() < 0.3 else {"k": "bin", "op": rng.choice(["+", "*", "-"]), "l": X, "r": L("int", k)}
        return {"k": "macro", "m": m, "x": ilist(xs), "v": "x", "body": body}
    if kind == "idx":
        i = rng.choice([rng.randint(-2, 8), rng.randint(-2**63, 2**63 - 1), len(xs), len(xs) - 1, -1])
        return {"k": "idx", "x": ilist(xs), "i": L("int", i)}
    if kind == "in":
        return {"k": "bin", "op": "in", "l": L("int", k), "r": ilist(xs)}
    if kind == "concat":
        ys = [rng.randint(0, 3) for _ in range(rng.randint(0, 3))]
        e = {"k": "bin", "op": "+", "l": ilist(xs), "r": ilist(ys)}
        return rng.choice([e, {"k": "mcall", "x": e, "f": "size", "args": []}, {"k": "idx", "x": e, "i": L("int", rng.randint(0, 8))}])
    if kind == "str":
        alpha = "abé\U0001f431"
        s = "".join(rng.choice(alpha) for _ in range(rng.randint(0, 5)))
        t = "".join(rng.choice(alpha) for _ in range(rng.randint(0, 2)))
        if rng.random() < 0.3:
            return {"k": "call", "f": "size", "args": [L("string", s)]}
        if rng.random() < 0.3:
            return {"k": "mcall", "x": {"k": "bin", "op": "+", "l": L("string", s), "r": L("string", t)}, "f": rng.choice(["startsWith", "endsWith"]), "args": [L("string", rng.choice([s, t]))]}
        return {"k": "mcall", "x": L("string", s), "f": rng.choice(["contains", "startsWith", "endsWith"]), "args": [L("string", t)]}
    if kind == "map":
        keys = rng.sample(["a", "b", "c", "é"], rng.randint(0, 3))
        m = {"k": "lit", "v": celx.enc({"t": "map", "v": [[{"t": "string", "v": kk}, {"t": "int", "v": rng.randint(0, 3)}] for kk in keys]})}
        key = rng.choice(["a", "b", "zz"])
        return rng.choice([{"k": "idx", "x": m, "i": L("string", key)}, {"k": "sel", "x": m, "f": [ord(c) for c in key]},
                           {"k": "has", "x": m, "f": [ord(c) for c in key]}, {"k": "bin", "op": "in", "l": L("string", key), "r": m},
                           {"k": "map", "es": [[L("string", rng.choice("ab")), L("int", 1)], [L("string", rng.choice("ab")), L("int", 2)]]}])
    if kind == "nested":
        ys = [rng.randint(0, 4) for _ in range(rng.randint(0, 4))]
        Y = {"k": "var", "n": "y"}
        inner = {"k": "macro", "m": rng.choice(["filter", "exists", "all", "map"]), "x": ilist(ys), "v": rng.choice(["y", "x"]), "body": {"k": "bin", "op": ">", "l": rng.choice([Y, X]), "r": X}}
        if inner["v"] == "x":
            inner["body"] = {"k": "bin", "op": ">", "l": X, "r": L("int", k)}
        return {"k": "macro", "m": rng.choice(["map", "map", "exists", "all"]), "x": ilist(xs), "v": "x", "body": inner}
    return {"k": rng.choice(["call"]), "f": "size", "args": [ilist(xs)]}


RX_TEXTS = ["", "a", "b", "ab", "ba", "aab", "abab", "a-b", "*", "a.("]
RX_INV = "INVARIANT LiteralIsContains\nINVARIANT Anchors\nINVARIANT Uniform\nINVARIANT AltIsUnion\nCHECK_DEADLOCK FALSE\n"
_RX = {}


def rx_class(pat):
    import re
    return "".join(sorted(set(re.sub(r"[ab]", "c", pat))))


def _replay_rx(item):
    """one pattern against every text: bound variables (one program per runner), literals and the function form on a rotating text"""
    pat, res, j0 = item
    if not _RX:
        for r in ("I", "C"):
            _RX[r] = celx.program("t.matches(p)", r)[0]
            _RX[r + "f"] = celx.program("matches(t, p)", r)[0]
    bad, n = [], 0

    def check(got, want, how, r, text):
        if want == "unk":
            return
        g = got["t"] if got["t"] != "bool" else ("t" if got["v"] else "f")
        g = {"err": "bad"}.get(g, g)
        if g != want:
            bad.append(("matches pattern{%s} exp=%s got=%s %s runner=%s" % (rx_class(pat), want, g if g in ("t", "f", "bad") else "other:" + g, how, r),
                        {"text": text, "pattern": pat, "how": how, "runner": r, "expected": want, "observed": celx.strip_py(got)}))
    for r in ("I", "C"):
        for j, text in enumerate(RX_TEXTS):
            b = {"t": celx.ct.StringType(text), "p": celx.ct.StringType(pat)}
            o = celx.guarded(lambda: _RX[r + ("f" if (j + j0) % 4 == 0 else "")].evaluate(b))
            n += 1
            check(celx.outcome_abs(o), res[j], "bound", r, text)
        text = RX_TEXTS[j0 % len(RX_TEXTS)]
        lit = "%s.matches(%s)" % (celx.strlit(text), celx.strlit(pat))
        n += 1
        check(celx.outcome_abs(celx.run(lit, {}, r, cache=False)), res[j0 % len(RX_TEXTS)], "literal", r, text)
        if res[0] == "bad":
            # an invalid pattern is an error wherever the call stands: inside a list literal, absorbed by ||
            for wrap, want in (("size([%s]) == 1", "bad"), ("%s || true", "t")):
                n += 1
                check(celx.outcome_abs(celx.run(wrap % lit, {}, r, cache=False)), want, "in " + wrap.replace("%s", "_"), r, text)
    return n, bad


def run(ctx: Ctx) -> int:
    q = ctx.quick
    r = ctx.tlc("MC_C09", "SPECIFICATION Spec\nCONSTANT FAMILIES = {%s}\n%s" % (", ".join('"%s"' % f for f in FAMILIES), INV),
                dump=True, name="program templates over value pools")
    states = [s for s in read_dump(r.dump) if not (s["prog"]["k"] == "lit" and s["prog"]["v"]["t"] == "null")]
    items = [(s["prog"], [], s["exp"]) for s in states]
    evalx.replay_states(ctx, items)
    ctx.cov["replayed_states"] = len(items)
    ctx.cov["indefinite_states"] = sum(1 for s in states if s["exp"]["t"] == "indef")
    for it in items[:: max(1, len(items) // 5)][:5]:
        ctx.sample({"cel": celx.render_ast(it[0]), "expected": it[2]})
    # matches(): every pattern over the regular-expression alphabet up to LEN symbols x the text list (reference matcher CelRegex)
    r = ctx.tlc("MC_C09R", "SPECIFICATION Spec\nCONSTANT LEN = %d\n%s" % (3 if q else 4, RX_INV), dump=True, name="matches: all patterns x texts")
    rx = [("".join(chr(c) for c in s["pat"]), s["res"], j) for j, s in enumerate(read_dump(r.dump))]
    nrx = 0
    for n, bad in pmap(_replay_rx, rx):
        nrx += n
        for sig, case in bad:
            ctx.disagree(sig, case)
    ctx.cov["traces_validated_against_impl"] += len(rx)
    ctx.cov["evaluations"] += nrx
    ctx.cov["replayed_patterns"] = len(rx)
    ctx.cov["invalid_patterns"] = sum(1 for _, res, _ in rx if res[0] == "bad")
    ctx.cov["patterns_outside_fragment"] = sum(1 for _, res, _ in rx if res[0] == "unk")
    ctx.sample({"pattern": rx[len(rx) // 2][0], "texts": RX_TEXTS, "expected": rx[len(rx) // 2][1]})
    rng = random.Random(ctx.seed)
    progs = [(rand_prog(rng), []) for _ in range(1500 if q else 100000)]
    # random patterns and texts, longer than the enumeration reaches (judged by Trace_Eval through CelEval's MatchFn)
    ralpha = "ab.*+?|()[]^$\\-"
    for _ in range(400 if q else 6000):
        pat = "".join(rng.choice(ralpha) for _ in range(rng.randint(1, 7)))
        text = "".join(rng.choice("ab-") for _ in range(rng.randint(0, 6)))
        call = {"k": "mcall", "x": L("string", text), "f": "matches", "args": [L("string", pat)]}
        progs.append((rng.choice([call, {"k": "list", "xs": [call]}, {"k": "bin", "op": "||", "l": call, "r": L("bool", True)}]), []))
    evalx.validate_trace(ctx, progs)
    ctx.assumptions += ["matches(): the modelled fragment is literals . * + ? | ( ) [...] ^ $ \\punct \\d \\w \\s and non-greedy marks; counted repetition, (?...) groups, "
                        "POSIX classes and other escapes are outside it (spec result 'unk', not compared)",
                        "heterogeneous containers and ill-typed operands are indefinite in the spec and not compared"]
    return ctx.finish(rule="TLC instantiates program templates (index, lookup, in, size, concatenation, map construction, string functions, the five "
                           "macros, nested macros) over value pools incl. every boundary index; the laws of the statement are model invariants; "
                           "every program is evaluated under both runners; random programs are judged by Trace_Eval. distinct = distinct programs",
                      extra={"distinct_nontrivial": len(items) + len(progs)})


def replay(path):
    return evalx.replay_file(path)
