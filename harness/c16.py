"""C16 concurrent evaluations in separate environments do not interfere.
Spec: CelThreads.tla (interleavings of RECORDED shared-cell access programs); replay: a deterministic line-level scheduler."""
from __future__ import annotations

import collections
import decimal
import dis
import logging
import os
import json
import random
import sys
import threading
import time

from . import celx
from .celx import ct, celpy
from .core import Ctx, run_tlc, MachineryError, printed_values, REPO

LIB_PREFIX = REPO + "/src/celpy"


# --------------------------------------------------------------------------------------------------------------
# programs: every thread owns its environment, program and bindings
# --------------------------------------------------------------------------------------------------------------
EXPRS = [
    "(x + %d) > 0 ? [x, %d].map(v, v * 2) : []",
    "has(m.k%d) || x > 1000 ? m.k%d + x : -1",
    "[x, x + 1, %d].filter(v, v %% 2 == 0).size() + %d",
    "string(x) + \"-%d-\" + string(size(s) + %d)",
    "name.matches(\"^p%d-\") ? x + %d : -x",
]


DEEP = 40


def score_1(x):       # module-level functions: the compiled runner refers to them by their importable path
    return ct.IntType(int(x) * 1000)


def score_2(x):
    return ct.IntType(int(x) * 2000)


def make_score(i):
    """every job supplies ITS OWN function under the same CEL name: module-level ones for i = 1, 2, nested ones otherwise"""
    if i in (1, 2):
        return {"score": (score_1, score_2)[i - 1]}

    def score(x):
        return ct.IntType(int(x) * 1000 * i)
    return [score]


def job_parts(job):
    """job = (runner, expression kind, i): the text, the bindings and the functions (distinct constants make foreign values recognisable)"""
    runner, k, i = job
    if k == 5:       # the SAME text in every job; what differs is the function each program was given
        text, fns = "score(x) + 1", make_score(i)
    elif k == 6:     # deeply parenthesised: needs the interpreter's raised recursion limit
        text, fns = "(" * DEEP + "x + %d" % (100 + i) + ")" * DEEP, None
    elif k == 7:     # no bindings at all
        return "[%d, %d + 1].map(v, v * 2)" % (20 * i, 20 * i), {}, None
    else:
        text, fns = EXPRS[k] % (100 + i, 100 + i), None
    bind = {"x": ct.IntType(5 + i), "s": ct.StringType("s" * (i + 1)), "name": ct.StringType("p%d-db" % (100 + i)),
            "m": ct.MapType({ct.StringType("k%d" % (100 + i)): ct.IntType(7 * (i + 1))})}
    return text, bind, fns


def lifecycle(job):
    """what one thread does: its own environment, its own program, its own bindings, one evaluation"""
    text, bind, fns = job_parts(job)
    env = celpy.Environment(runner_class=celx.RUNNERS[job[0]])
    prog = env.program(env.compile(text), functions=fns)
    return prog.evaluate(dict(bind))


def evaluation_only(job):
    """environment and program built beforehand (outside the scheduled region): only evaluate() is interleaved"""
    text, bind, fns = job_parts(job)
    env = celpy.Environment(runner_class=celx.RUNNERS[job[0]])
    prog = env.program(env.compile(text), functions=fns)
    return lambda: prog.evaluate(dict(bind))


def make_job(runner, i):
    text, bind, _ = job_parts((runner, i % 4, i))
    env = celpy.Environment(runner_class=celx.RUNNERS[runner])
    return text, env.program(env.compile(text)), bind


def result_of(fn):
    try:
        return json.dumps(celx.strip_py(celx.project(fn())), sort_keys=True, default=str)
    except celx.CELEvalError as ex:
        return "CELEvalError"
    except BaseException as ex:  # noqa: BLE001
        return "EXC:%s:%s" % (type(ex).__name__, str(ex)[:80])


# --------------------------------------------------------------------------------------------------------------
# recording the shared-cell accesses of one evaluation (solo, traced)
# --------------------------------------------------------------------------------------------------------------
def tracked_dicts():
    """process-wide mutable state of the library: module namespaces and class namespaces of celpy / xlate, and the
    instance dictionaries of library objects held directly in them"""
    out = {}
    for name, mod in list(sys.modules.items()):
        if mod is not None and (name == "celpy" or name.startswith("celpy.") or name.startswith("xlate")):
            out[name] = vars(mod)
            for k, v in list(vars(mod).items()):
                if isinstance(v, type) and getattr(v, "__module__", "").startswith(("celpy", "xlate")):
                    out["%s.%s" % (name, k)] = v.__dict__
                elif type(v).__module__.startswith(("celpy", "xlate")) and hasattr(v, "__dict__") and not isinstance(v, type(sys)):
                    out["%s.%s" % (name, k)] = v.__dict__
    out["sys"] = {}         # marker: the interpreter settings of process_settings()
    return out


def fingerprint(v):
    """identity of a binding, including the contents of a container bound directly to the name"""
    if isinstance(v, (dict, list, set, collections.ChainMap, collections.deque)) and len(v) <= 400:
        try:
            if isinstance(v, collections.ChainMap):
                return (id(v),) + tuple((len(m), sum(map(id, m.values()))) for m in v.maps)
            if isinstance(v, dict):
                return (id(v), len(v), sum(map(id, v.values())), sum(map(id, v)))
            return (id(v), len(v), sum(map(id, v)))
        except RuntimeError:
            return id(v)
    return id(v)


def process_settings():
    """process-wide interpreter settings an evaluation might touch (not a namespace, but shared state all the same)"""
    return {"recursionlimit": sys.getrecursionlimit(), "switchinterval": sys.getswitchinterval(), "cwd_env": hash(tuple(sorted(os.environ.items()))),
            "logging_disabled": logging.root.manager.disable, "decimal_prec": decimal.getcontext().prec}


def snapshot(dicts):
    out = {dn: {k: fingerprint(v) for k, v in list(d.items())} for dn, d in dicts.items() if dn != "sys"}
    if "sys" in dicts:
        out["sys"] = process_settings()
    return out


def diff(a, b):
    """cells whose fingerprint changed, with the new fingerprint (as text)"""
    out = []
    for dn in b:
        da, db = a.get(dn, {}), b[dn]
        for k, v in db.items():
            if da.get(k) != v:
                out.append(("%s:%s" % (dn, k), str(v)))
        for k in da:
            if k not in db:
                out.append(("%s:%s" % (dn, k), "<deleted>"))
    return out


_LINE_LOADS = {}


def line_loads(code):
    """line -> (names the line loads from its globals, attribute names it loads)"""
    m = _LINE_LOADS.get(code)
    if m is None:
        m = {}
        cur = None
        for ins in dis.get_instructions(code):
            if ins.starts_line is not None:
                cur = ins.starts_line
            if cur is None:
                continue
            if ins.opname in ("LOAD_GLOBAL", "LOAD_NAME"):
                m.setdefault(cur, (set(), set()))[0].add(ins.argval)
            elif ins.opname in ("LOAD_ATTR", "LOAD_METHOD"):
                m.setdefault(cur, (set(), set()))[1].add(ins.argval)
        _LINE_LOADS[code] = m
    return m


_LINE_OBJ = {}


def line_object_access(code):
    """line -> (locals whose attributes the line loads, locals whose attributes it stores): LOAD_FAST x; LOAD_ATTR / STORE_ATTR"""
    m = _LINE_OBJ.get(code)
    if m is None:
        m = {}
        cur, prev = None, None
        for ins in dis.get_instructions(code):
            if ins.starts_line is not None:
                cur = ins.starts_line
            if cur is not None and prev is not None and prev.opname in ("LOAD_FAST", "LOAD_FAST_CHECK", "LOAD_DEREF"):
                if ins.opname in ("LOAD_ATTR", "LOAD_METHOD"):
                    m.setdefault(cur, (set(), set()))[0].add(prev.argval)
                elif ins.opname == "STORE_ATTR":
                    m.setdefault(cur, (set(), set()))[1].add(prev.argval)
            prev = ins
        _LINE_OBJ[code] = m
    return m


ALIVE = {}      # id -> object: objects seen as attribute targets are kept alive so that an id is never reused within a run


def library_object(o):
    t = type(o)
    return (t.__module__ or "").startswith(("celpy", "xlate", "lark")) and hasattr(o, "__dict__") and not isinstance(o, type)


def interesting(code):
    return code.co_filename.startswith(LIB_PREFIX) or code.co_filename == "<string>"


def record(body, prepare=lambda: None):
    """run body() alone under a tracer -> (result, steps); steps = [{'at': [file, line], 'g': global names loaded, 'a': attribute
    names loaded, 'w': cells written}].  `body` is a factory: body() returns a fresh callable (the run is repeated: a coarse
    pass finds WHICH namespaces change at all (snapshots every 25 lines), a fine pass snapshots only those after every line)."""
    dicts = tracked_dicts()
    by_id = {id(d): dn for dn, d in dicts.items()}

    def traced(snap_every, watch):
        steps = []
        state = {"snap": snapshot(watch), "n": 0, "changed": set()}

        def close(force=False):
            state["n"] += 1
            if steps and (force or state["n"] % snap_every == 0):
                now = snapshot(watch)
                d = diff(state["snap"], now)
                steps[-1]["w"] = [c for c, _ in d]
                steps[-1]["v"] = [v for _, v in d]
                state["changed"].update(c.split(":")[0] for c in steps[-1]["w"])
                state["snap"] = now

        def local(frame, event, arg):
            if event == "line":
                close()
                code = frame.f_code
                gname = by_id.get(id(frame.f_globals))
                g, a = line_loads(code).get(frame.f_lineno, ((), ()))
                orr, oww = [], []
                acc = line_object_access(code).get(frame.f_lineno)
                if acc:
                    loc = frame.f_locals
                    for names, out in ((acc[0], orr), (acc[1], oww)):
                        for nm in names:
                            o = loc.get(nm)
                            if o is not None and library_object(o):
                                ALIVE[id(o)] = o
                                out.append("obj:%s:%d" % (type(o).__name__, id(o)))
                steps.append({"at": [code.co_filename.replace(LIB_PREFIX, "celpy"), frame.f_lineno],
                              "g": sorted("%s:%s" % (gname, n) for n in g) if gname else [], "a": sorted(a), "w": [], "v": [], "or": orr, "ow": oww})
            return local

        def glob(frame, event, arg):
            return local if interesting(frame.f_code) else None
        reset_settings()
        prepare()
        steps, state["snap"] = [], snapshot(watch)
        fn = body()
        sys.settrace(glob)
        try:
            res = result_of(fn)
        finally:
            sys.settrace(None)
        close(True)
        return res, steps, state["changed"]
    res, steps, changed = traced(25, dicts)
    if changed:
        # namespaces of objects created during the run are not in `dicts`; the changed ones are watched line by line
        res, steps, _ = traced(1, {dn: dicts[dn] for dn in changed})
    return res, steps


def shared_program(all_steps):
    """restrict reads to cells that some evaluation writes (everything else is constant environment) and drop the lines that
    touch no such cell (stuttering steps); every kept step remembers its line index `i`.  An attribute load `.name` counts as
    a read of every written cell called `name` (an over-approximation: the model may find interference the code does not have;
    only a replayed schedule that changes a result is a violation)."""
    written = set()
    for steps in all_steps:
        for s in steps:
            written.update(s["w"])
    by_attr = {}
    for c in written:
        by_attr.setdefault(c.split(":", 1)[1], []).append(c)
    # library objects that BOTH runs use as attribute targets are shared objects: every attribute store is a write of that
    # object's cell (with a value no other store has), every attribute load a read
    touched = [set(c for s in steps for c in s.get("or", []) + s.get("ow", [])) for steps in all_steps]
    stored = set(c for steps in all_steps for s in steps for c in s.get("ow", []))
    shared_objs = (set.intersection(*touched) if touched else set()) & stored
    progs = []
    for steps in all_steps:
        p = []
        own_settings = set()
        since = 0
        for j, s in enumerate(steps):
            r = [c for c in s["g"] if c in written]
            for a in s["a"]:
                r += by_attr.get(a, [])
            # interpreter settings are read implicitly by everything: after a thread has set one, it relies on it -- modelled as a
            # read every 40 lines and at its last line
            since += 1
            if own_settings and (since % 40 == 0 or j == len(steps) - 1):
                r += sorted(own_settings)
            own_settings.update(c for c in s["w"] if c.startswith("sys:"))
            w, v = list(s["w"]), list(s["v"])
            r += [c.rsplit(":", 1)[0] for c in s.get("or", []) if c in shared_objs]
            for c in s.get("ow", []):
                if c in shared_objs and c.rsplit(":", 1)[0] not in w:
                    w.append(c.rsplit(":", 1)[0])           # one cell per class of shared object; the value says whose store it was
                    v.append("thread %d" % len(progs))
            if r or w:
                p.append({"i": j, "r": sorted(set(r)), "w": w, "v": v})
        progs.append(p)
    return progs, sorted(written) + sorted(set(c.rsplit(":", 1)[0] for c in shared_objs))


# --------------------------------------------------------------------------------------------------------------
# deterministic scheduler: threads block at every traced line and run only when the plan says so
# --------------------------------------------------------------------------------------------------------------
class Sched:
    def __init__(self, plan, nthreads):
        self.plan = plan
        self.ptr = 0
        self.cv = threading.Condition()
        self.done = [False] * nthreads
        self.stuck = False

    def _skip_done(self):
        while self.ptr < len(self.plan) and self.done[self.plan[self.ptr]]:
            self.ptr += 1

    def arrive(self, tid):
        with self.cv:
            t0 = time.time()
            while True:
                self._skip_done()
                if self.ptr >= len(self.plan) or self.plan[self.ptr] == tid:
                    break
                if not self.cv.wait(0.5) and time.time() - t0 > 20:
                    self.stuck = True
                    break
            if self.ptr < len(self.plan):
                self.ptr += 1
            self.cv.notify_all()

    def finish(self, tid):
        with self.cv:
            self.done[tid] = True
            self.cv.notify_all()

    def tracer(self, tid):
        def local(frame, event, arg):
            if event == "line":
                self.arrive(tid)
            return local

        def glob(frame, event, arg):
            return local if interesting(frame.f_code) else None
        return glob


BASELINE = {"recursionlimit": sys.getrecursionlimit(), "switchinterval": sys.getswitchinterval()}


def reset_settings():
    """every experiment starts from the interpreter settings this process started with"""
    sys.setrecursionlimit(BASELINE["recursionlimit"])
    sys.setswitchinterval(BASELINE["switchinterval"])


def run_scheduled(factories, plan):
    reset_settings()
    bodies = [f() for f in factories]       # whatever the bodies prepare outside the scheduled region happens after the reset
    s = Sched(plan, len(bodies))
    res = [None] * len(bodies)

    def mk(tid):
        def f():
            sys.settrace(s.tracer(tid))
            try:
                res[tid] = result_of(bodies[tid])
            finally:
                sys.settrace(None)
                s.finish(tid)
        return f
    ts = [threading.Thread(target=mk(i)) for i in range(len(bodies))]
    for t in ts:
        t.start()
    for t in ts:
        t.join(60)
    if s.stuck or any(t.is_alive() for t in ts):
        raise MachineryError("scheduler stuck")
    return res


def tlc_interleavings(ctx, progs, name):
    """all interleavings of the recorded programs; returns (ok, witness schedule or None, stats)"""
    pf = ctx.work / ("progs_%d.json" % (int(time.time() * 1000) % 10**9))
    pf.write_text(json.dumps(progs))
    try:
        r = run_tlc("CelThreads", "SPECIFICATION Spec\nINVARIANT NoInterference\nCHECK_DEADLOCK FALSE\n", ctx.work, env={"PROG_FILE": str(pf)}, workers=4, timeout=180)
    except MachineryError as ex:
        if "timeout" not in str(ex):
            raise
        # too many shared accesses to enumerate every interleaving in the time allowed: the replayed schedules still run
        ctx.cov.setdefault("model_not_exhausted", []).append(name)
        ctx.cov["exhaustive"] = False
        return False, None
    ctx.cov["states"] += r.distinct
    ctx.cov["transitions"] += r.generated
    ctx.cov["tlc_runs"].append({"name": name, "module": "CelThreads", "distinct_states": r.distinct, "states_generated": r.generated, "depth": r.depth,
                                "wall_s": round(r.wall, 1), "mode": "bfs", "invariant_violated": r.violated})
    if "NoInterference" not in ctx.cov["model_invariants"]:
        ctx.cov["model_invariants"].append("NoInterference")
    if not r.violated:
        return True, None
    # the counterexample: successive pc values give the schedule
    import re
    pcs = [[int(x) for x in m.group(1).split(",")] for m in re.finditer(r"/\\ pc = <<([\d, ]+)>>", r.stdout)]
    plan, cur = [], [0] * len(progs)
    for a, b in zip(pcs, pcs[1:]):
        for t, (x, y) in enumerate(zip(a, b)):
            if y == x + 1:
                upto = progs[t][x - 1]["i"] + 1           # run thread t up to and including that line
                plan += [t] * (upto - cur[t])
                cur[t] = upto
    return False, plan


PAIRS_QUICK = [(("I", 0, 0), ("I", 1, 1)), (("C", 0, 0), ("C", 1, 1)), (("C", 2, 2), ("C", 3, 3)), (("I", 2, 2), ("C", 0, 3)),
               (("C", 4, 1), ("C", 4, 2)), (("I", 4, 1), ("I", 4, 2)), (("C", 3, 4), ("I", 4, 5)),
               (("C", 5, 1), ("C", 5, 2)), (("I", 5, 1), ("I", 5, 2)), (("C", 5, 3), ("C", 5, 4)), (("I", 6, 1), ("I", 6, 2)), (("C", 6, 1), ("I", 6, 2)),
               (("C", 7, 1), ("C", 7, 2)), (("I", 7, 1), ("C", 7, 2)),
               # the same kind of expression in both threads (textually equal macro bodies, different constants and bindings)
               (("I", 0, 1), ("I", 0, 2)), (("I", 7, 1), ("I", 7, 2)), (("I", 2, 1), ("I", 2, 2)), (("C", 2, 1), ("C", 2, 2))]


def run(ctx: Ctx) -> int:
    q = ctx.quick
    rng = random.Random(ctx.seed)
    total_sched = 0
    pairs = list(PAIRS_QUICK)
    if not q:
        pairs += [((r1, k1, 1), (r2, k2, 2)) for r1 in "IC" for r2 in "IC" for k1 in range(8) for k2 in range(8) if (r1, k1) <= (r2, k2)]
    # two kinds of thread body: the whole lifecycle (environment, compile, program, evaluate) and evaluate() alone
    for mode in ("lifecycle", "evaluate"):
        for a, b in pairs:
            if mode == "evaluate" and a[0] != b[0] and q:
                continue
            if mode == "lifecycle":
                factories = [lambda j=a: (lambda: lifecycle(j)), lambda j=b: (lambda: lifecycle(j))]
            else:
                pa, pb = evaluation_only(a), evaluation_only(b)
                factories = [lambda: pa, lambda: pb]
            texts = [job_parts(a)[0][:80], job_parts(b)[0][:80]]
            # each job alone -- after the OTHER job has run, so that a write which restores what the job itself left behind
            # last time still shows as a write
            solo, rec = [None, None], [None, None]
            for t in (0, 1):
                solo[t], rec[t] = record(factories[t], prepare=lambda: result_of(factories[1 - t]()))
                result_of(factories[1 - t]())
                reset_settings()
                again = result_of(factories[t]())
                if again != solo[t]:
                    ctx.disagree("solo %s is not repeatable runner=%s" % (mode, (a, b)[t][0]), {"cel": texts[t], "first": solo[t], "second": again})
            progs, cells = shared_program(rec)
            touching = [[s["i"] for s in p] for p in progs]
            tag = "%s %s%d/%s%d" % (mode, a[0], a[1], b[0], b[1])
            ctx.cov.setdefault("recorded_lines", {})[tag] = [len(rec[0]), len(rec[1])]
            if cells:
                ctx.cov.setdefault("shared_cells_written", {})[tag] = cells[:12]
            ok, witness = tlc_interleavings(ctx, progs, "interleavings " + tag)
            n = [len(rec[0]), len(rec[1])]
            plans = []
            if witness:
                last = witness[-1]
                plans.append(("tlc-witness", witness + [last] * (n[last] + 5) + [1 - last] * (n[1 - last] + 5)))
            # every single-preemption schedule at the lines that touch shared cells (+-1), and a sample of all lines
            for first in (0, 1):
                ks = set()
                tl = touching[first]
                if len(tl) > 140:
                    tl = tl[:10] + tl[10:-10:max(1, (len(tl) - 20) // 120)] + tl[-10:]
                for j in tl:
                    ks.update((j, j + 1, j + 2))
                stride = max(1, n[first] // (10 if q else 60))
                ks.update(range(1, n[first], stride))
                for k in sorted(x for x in ks if 0 < x < n[first]):
                    plans.append(("preempt thread %d after %d lines" % (first, k), [first] * k + [1 - first] * (n[1 - first] + 5) + [first] * (n[first] + 5)))
            # two preemptions placed at the writes of shared cells: t runs to just after one of its writes, the other thread to just
            # after one of its own, then t to its end, then the other -- the shape in which a stale save / restore does damage
            wl = [[s["i"] for s in p if s["w"]] for p in progs]
            for first in (0, 1):
                for ka in wl[first][:6]:
                    for kb in wl[1 - first][:6]:
                        plans.append(("two preemptions at shared writes (thread %d after line %d, thread %d after line %d)" % (first, ka + 1, 1 - first, kb + 1),
                                      [first] * (ka + 1) + [1 - first] * (kb + 1) + [first] * (n[first] + 5) + [1 - first] * (n[1 - first] + 5)))
            if not q:
                for _ in range(30):     # two preemptions
                    k1 = rng.randrange(1, n[0])
                    k2 = rng.randrange(1, n[1])
                    plans.append(("two preemptions", [0] * k1 + [1] * k2 + [0] * (n[0] + 5) + [1] * (n[1] + 5)))
            for what, plan in plans:
                total_sched += 1
                got = run_scheduled(factories, plan)
                for t in (0, 1):
                    if got[t] != solo[t]:
                        foreign = "the other thread's value" if got[t] == solo[1 - t] else "another outcome"
                        at = ""
                        if what.startswith("preempt"):
                            first, k = int(what.split()[2]), int(what.split()[4])
                            at = " at %s:%d" % tuple(rec[first][k - 1]["at"])
                        ctx.disagree("%s: runner=%s (other thread %s) returns %s under a %s schedule" % (
                                         mode, (a, b)[t][0], (a, b)[1 - t][0], foreign, what.split(" thread")[0] if what.startswith("preempt") else what.split(" (")[0]),
                                     {"mode": mode, "jobs": [[a[0], texts[0]], [b[0], texts[1]]], "schedule": what + at, "thread": t, "alone": solo[t], "observed": got[t],
                                      "tlc_says_interference_possible": not ok, "cells": cells[:8]})
                        break
            if not ok:
                ctx.cov.setdefault("model_found_interference", []).append(tag)
        ctx.sample({"mode": mode, "jobs": [job_parts(pairs[0][0])[0], job_parts(pairs[0][1])[0]]})
    ctx.cov["traces_validated_against_impl"] += total_sched
    ctx.cov["evaluations"] += 2 * total_sched
    ctx.cov["schedules_replayed"] = total_sched
    # free-running stress (thorough): threads create their own environments and evaluate repeatedly
    if not q:
        bad = stress(4, 300)
        for b in bad:
            ctx.disagree("free-running stress: %s" % b[0], b[1])
        ctx.cov["stress_evaluations"] = 4 * 300 * 2
    ctx.assumptions += ["interleavings are at Python-line granularity inside the library (sys.settrace); finer interleavings only through free-running stress",
                        "shared cells = names of celpy / xlate module namespaces, class namespaces and library objects bound in them (and containers bound "
                        "directly to such names) that a recorded run writes; lark / re2 / pendulum internals are not instrumented"]
    return ctx.finish(rule="each thread body (the whole lifecycle: own Environment, compile, program, evaluate -- and evaluate() alone) is recorded alone after the "
                           "other job has run (every line's reads / writes of process-wide names); TLC explores ALL interleavings of the two recorded programs "
                           "for NoInterference; a deterministic scheduler then replays into real threads the TLC witness (if any), every single-preemption "
                           "schedule at the lines touching shared cells and a stride sample of all lines (two preemptions and free-running stress in the thorough "
                           "tier); every result is compared with the job's result alone. Pairs cover same and different runner classes. distinct = replayed schedules",
                      extra={"distinct_nontrivial": total_sched})


def stress(nthreads, rounds):
    sys.setswitchinterval(1e-6)
    bad = []
    try:
        for runner in ("I", "C"):
            out = {}

            def body(i):
                text, prog, bind = make_job(runner, i)      # own environment, created in the thread
                want = None
                for _ in range(rounds):
                    got = result_of(lambda: prog.evaluate(dict(bind)))
                    if want is None:
                        want = got
                    elif got != want:
                        out[i] = (text, want, got)
                        return
                out.setdefault(i, (text, want, want))
            ts = [threading.Thread(target=body, args=(i,)) for i in range(nthreads)]
            for t in ts:
                t.start()
            for t in ts:
                t.join()
            for i, (text, want, got) in out.items():
                solo = result_of(lambda: make_job(runner, i)[1].evaluate(dict(make_job(runner, i)[2])))
                if got != want or want != solo:
                    bad.append(("runner=%s result changes between repetitions" % runner, {"cel": text, "alone": solo, "first": want, "later": got}))
    finally:
        sys.setswitchinterval(0.005)
    return bad


def replay(path):
    d = json.load(open(path))
    print(json.dumps(d["case"], indent=1)[:1500])
    return 1
