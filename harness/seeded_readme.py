"""Regenerates /verif/seeded/README.md from seeded/results.json and the meta.json of every change.

    /venv/bin/python -m harness.seeded_readme
"""
from __future__ import annotations

import json
import re
from pathlib import Path

SEEDED = Path(__file__).resolve().parent.parent / "seeded"


def main():
    res = json.loads((SEEDED / "results.json").read_text())
    first5 = {}
    log = SEEDED / "round5_first_evaluation.log"
    if log.exists():
        for ln in log.read_text().splitlines():
            m = re.match(r"(C\d\d/r5m\d) (CAUGHT|MISSED) (\S+)", ln)
            if m:
                first5[m.group(1)] = "caught" if m.group(2) == "CAUGHT" else ("patch did not apply" if m.group(3) == "None" else "missed")
    rows, live, caught = [], 0, 0
    for pd in sorted(SEEDED.iterdir()):
        if not pd.is_dir():
            continue

        def order(d):
            m = re.match(r"(?:r(\d))?m(\d+)", d.name)
            return (int(m.group(1) or 1), int(m.group(2))) if m else (9, 0)
        for md in sorted((d for d in pd.iterdir() if (d / "patch.diff").exists()), key=order):
            key = "%s/%s" % (pd.name, md.name)
            meta = json.loads((md / "meta.json").read_text()) if (md / "meta.json").exists() else {}
            r = res.get(key, {})
            own = r.get("checks", {}).get(pd.name + ":quick", {})
            rnd = order(md)[0]
            if "error" in r and not own:
                status = "does not apply to the repaired tree"
            elif r.get("demo_confirms") is False:
                status = "neutralised by a fix (demo unchanged)"
            else:
                live += 1
                status = "caught" if own.get("caught") else "MISSED"
                caught += own.get("caught", False)
            sig = (own.get("first") or [""])[0]
            sig = re.sub(r"^sig=", "", sig).split(" case=")[0][:110]
            summary = " ".join(str(meta.get("summary", "")).split())[:160].replace("|", "\\|")
            extra = ""
            if rnd == 5 and key in first5 and first5[key] != "caught":
                extra = " (first evaluation: %s)" % first5[key]
            rows.append("| %s | %d | %s | %s%s | `%s` |" % (key, rnd, summary, status, extra, sig.replace("|", "\\|").replace("`", "'")))
    head = """# Seeded changes

Produced by five rounds of 20 fresh sub-agents each (one per property; each saw only the property text and a scratch worktree).
Every patch keeps the 436-test suite green; `python -m harness.seeded` applies each to a scratch worktree, confirms the demo, re-runs the test suite and runs the property's quick check
(from a snapshot of /verif, against the worktree: `VERIF_REPO`, `VERIF_OUT`).  `python -m harness.seeded_readme` writes this file from `results.json`.
State: %d changes that still change behaviour, %d of them caught by the property's own quick check.  Round 5 was evaluated blind first
(`round5_first_evaluation.log`: 30 of 39 applicable changes caught); the column shows the state after the strengthening described in DESIGN.md 11.12.

| change | round | what it does | `./check <id> quick` | first signature reported |
|---|---|---|---|---|
""" % (live, caught)
    (SEEDED / "README.md").write_text(head + "\n".join(rows) + "\n")
    print("README: %d changes, %d live, %d caught" % (len(rows), live, caught))


if __name__ == "__main__":
    main()
