"""C04 evaluation ends in a value or a CEL error, never another exception.  Spec: CelEval (total), CelSyntax; model MC_C04."""
from __future__ import annotations

import json
import re
import random

import lark

from . import celx, evalx, corpus
from .core import Ctx, read_dump, write_ndjson, trace_verdict, pmap
from .c06 import text_of, norm, parser, tokenize
from celpy.celparser import CELParseError

INV = "INVARIANT Total\nINVARIANT Stable\nCHECK_DEADLOCK FALSE\n"


def render_error(ex):
    """str() and repr() of a raised library error must work."""
    out = []
    for fn in (str, repr):
        try:
            fn(ex)
        except Exception as e2:  # noqa: BLE001
            out.append("%s() raises %s" % (fn.__name__, type(e2).__name__))
    return out


def classify(text, bind=None):
    """Evaluate under both runners -> list of (runner, problem-signature or None, detail)"""
    res = []
    for r in ("I", "C"):
        o = celx.run(text, bind or {}, r, cache=False)
        if o.kind == "exc":
            res.append((r, "escapes: %s at %s" % (o["cls"], o["phase"]), o.get("msg", "")))
        elif o.kind in ("err", "parse"):
            probs = render_error(o["ex"])
            if o.kind == "parse":
                ln, col = o["line"], o["column"]
                lines = text.split("\n") or [""]
                if not (isinstance(ln, int) and isinstance(col, int) and 1 <= ln <= len(lines) and 1 <= col <= len(lines[ln - 1]) + 1):
                    probs.append("parse error not located (line=%r column=%r)" % (ln, col))
            res.append((r, "; ".join(probs) if probs else None, ""))
        else:
            junk = non_cel(celx.project(o["v"]))
            res.append((r, "value contains a non-CEL object (%s)" % junk if junk else None, ""))
    return res


def non_cel(a):
    """a projected value that holds something that is not a CEL value (e.g. a CELEvalError stored in a container)"""
    if a.get("py") in ("CELEvalError",) or a["t"] == "other":
        return a.get("py")
    if a["t"] == "list":
        for x in a["v"]:
            j = non_cel(x)
            if j:
                return j
    if a["t"] == "map":
        for k, v in a["v"]:
            j = non_cel(k) or non_cel(v)
            if j:
                return j
    return None


def lit_shape(text):
    import re
    pre = re.match(r"[bBrR]*", text).group()
    esc = sorted(set(re.findall(r"\\(.)", text)))
    return "%s%s escapes={%s}" % (pre, "str" if text[len(pre):len(pre) + 1] in ("'", '"') else "num", "".join(esc))


MACROS = ("all", "exists", "exists_one", "filter", "map", "reduce", "min")


def root_of(prog):
    # a macro name used as an ordinary method call / has() / dyn() call: the argument list has the wrong shape
    if prog.get("k") == "mcall" and prog["f"] in MACROS:
        ok_var = len(prog["args"]) >= 1 and prog["args"][0].get("k") == "var"
        return "%s#%d%s" % (prog["f"], len(prog["args"]), "" if ok_var or not prog["args"] else "!var")
    if prog.get("k") == "call" and prog["f"] in ("has", "dyn"):
        return "%s#%d" % (prog["f"], len(prog["args"]))
    k = evalx.node_kinds(prog)
    return k[0] if k else "lit"


def operand_kinds(prog):
    out = []
    for key in ("l", "r", "x", "i", "c", "a", "b"):
        v = prog.get(key)
        if isinstance(v, dict) and v.get("k") == "lit":
            out.append(v["v"]["t"])
        elif isinstance(v, dict):
            out.append("expr")
    for a in prog.get("args", []) if isinstance(prog.get("args"), list) else []:
        if isinstance(a, dict) and a.get("k") == "lit":
            out.append(a["v"]["t"])
    return ",".join(out)


def _replay_prog(item):
    prog, exp_w = item
    text = celx.render_ast(prog)
    exp = celx.dec(exp_w)
    bad = []
    for r, prob, msg in classify(text):
        if prob:
            bad.append(("%s(%s): %s runner=%s" % (root_of(prog), operand_kinds(prog), prob, r), {"prog": prog, "cel": text, "runner": r, "problem": prob, "msg": msg}))
    return 2, bad


def _replay_tokens(item):
    toks, acc = item
    text = " ".join(t["s"] for t in toks)
    bad = []
    for cls in ("I", "C"):
        p = parser(cls)
        try:
            tree = p.parse(text)
            mine = [t["s"] for t in toks if t["k"] in ("id", "lit")]
            theirs = [str(v) for v in tree.scan_values(lambda v: isinstance(v, lark.Token))]
            if mine != theirs:
                continue     # lexical disagreement (`in` as identifier): out of model
            if not acc:
                bad.append(("tokens: library accepts what the grammar rejects", {"text": text, "tree_class": cls}))
        except CELParseError as ex:
            if acc:
                bad.append(("tokens: library rejects what the grammar accepts", {"text": text, "tree_class": cls}))
            ln, col = ex.line, ex.column
            if not (isinstance(ln, int) and isinstance(col, int) and ln == 1 and 1 <= col <= len(text) + 1):
                kind = "after '.'" if any(toks[j]["s"] == "." and j + 1 < len(toks) and toks[j + 1]["s"] in ("true", "false") for j in range(len(toks))) else "other"
                bad.append(("parse error not located (line=%r column=%r) %s" % (ln, col, "bool-literal token" if ln is None else kind), {"text": text, "tree_class": cls}))
            for prob in render_error(ex):
                bad.append(("parse error: " + prob, {"text": text}))
        except Exception as ex:  # noqa: BLE001
            bad.append(("compile escapes: %s" % type(ex).__name__, {"text": text, "tree_class": cls}))
    return 2, bad


def _compile_event(text):
    e = celx.env("I")
    lens = [len(x) for x in text.split("\n")]
    try:
        e.compile(text)
        return {"lens": lens, "kind": "tree", "line": 0, "col": 0}
    except CELParseError as ex:
        ok = isinstance(ex.line, int) and isinstance(ex.column, int)
        return {"lens": lens, "kind": "parse", "line": ex.line if ok else -1, "col": ex.column if ok else -1,
                "render": render_error(ex), "none": not ok, "tok": str(ex)[:0]}
    except Exception as ex:  # noqa: BLE001
        return {"lens": lens, "kind": "exc:" + type(ex).__name__, "line": 0, "col": 0}


def _eval_text(text):
    return classify(text)


def rand_nested(rng, leaves, depth):
    from .c09 import L
    if depth == 0 or rng.random() < 0.3:
        return rng.choice(leaves)
    k = rng.choice(["bin", "bin", "un", "cond", "idx", "call", "mcall", "macro", "list", "map", "sel"])
    sub = lambda: rand_nested(rng, leaves, depth - 1)
    if k == "bin":
        return {"k": "bin", "op": rng.choice(["+", "-", "*", "/", "%", "<", "<=", "==", "!=", ">", ">=", "in", "&&", "||"]), "l": sub(), "r": sub()}
    if k == "un":
        return {"k": "un", "op": rng.choice("!-"), "x": sub()}
    if k == "cond":
        return {"k": "cond", "c": sub(), "a": sub(), "b": sub()}
    if k == "idx":
        return {"k": "idx", "x": sub(), "i": sub()}
    if k == "sel":
        return {"k": rng.choice(["sel", "has"]), "x": sub(), "f": [97]}
    if k == "call":
        return {"k": "call", "f": rng.choice(["size", "int", "uint", "double", "string", "bytes", "bool", "type", "timestamp", "duration", "dyn"]), "args": [sub()]}
    if k == "mcall":
        f = rng.choice(["size", "contains", "startsWith", "endsWith", "matches", "getFullYear", "getHours", "getDayOfWeek"])
        return {"k": "mcall", "x": sub(), "f": f, "args": [] if f in ("size", "getDayOfWeek") else [sub()]}
    if k == "macro":
        return {"k": "macro", "m": rng.choice(["all", "exists", "exists_one", "filter", "map"]), "x": sub(), "v": "x", "body": rng.choice([{"k": "var", "n": "x"}, sub()])}
    if k == "list":
        return {"k": "list", "xs": [sub() for _ in range(rng.randint(0, 2))]}
    return {"k": "map", "es": [[sub(), sub()] for _ in range(rng.randint(0, 2))]}


def run(ctx: Ctx) -> int:
    q = ctx.quick
    r = ctx.tlc("MC_C04", 'SPECIFICATION Spec\nCONSTANTS MODE = "typed" LEN = 0\n' + INV, dump=True, name="every operator/function/macro x every value kind")
    states = [s for s in read_dump(r.dump) if not (s["prog"]["k"] == "lit")]
    items = [(s["prog"], s["exp"]) for s in states]
    leaves = []
    nobs = 0
    for n, bad in pmap(_replay_prog, items):
        nobs += n
        for sig, case in bad:
            ctx.disagree(sig, case)
    ctx.cov["replayed_programs"] = len(items)
    # CEL's minimum nesting limits: three recursive rules nested 12 deep each (no RecursionError may escape)
    r = ctx.tlc("MC_C04", 'SPECIFICATION Spec\nCONSTANTS MODE = "deep" LEN = 0\nCHECK_DEADLOCK FALSE\n', dump=True, name="three rules nested 12 deep each")
    deep = [(s["prog"], s["exp"]) for s in read_dump(r.dump) if not (s["prog"]["k"] == "lit")]
    for n, bad in pmap(_replay_prog, deep):
        nobs += n
        for sig, case in bad:
            ctx.disagree(sig, case)
    ctx.cov["replayed_deep_programs"] = len(deep)
    # a value kind that has no literal: a message value bound as a variable (celtypes.MessageType), under every member / operator / macro form
    from .celx import ct
    msg = ct.MessageType({ct.StringType("a"): ct.IntType(1)})
    forms = ["msg", "msg.a", "msg.b", "msg.a.b", "msg.b.c.d", "has(msg.a)", "has(msg.b)", "has(msg.b.c)", "msg.b || true", "msg.b && false", "true ? 1 : msg.b", "msg.b ? 1 : 2",
             "msg['a']", "msg['b']", "msg[0]", "size(msg)", "msg.size()", "msg == msg", "msg != msg", "msg < msg", "msg + msg", "msg - msg", "-msg", "!msg", "msg in [msg]", "1 in msg", "'b' in msg",
             "msg ? 1 : 2", "[msg].map(x, x.b)", "[msg].all(x, has(x.b))", "[msg].exists(x, x.b == 1)", "[msg].filter(x, x.a == 1)", "[msg].exists_one(x, x.b)", "msg.map(k, k)", "msg.all(k, msg[k] == 1)",
             "type(msg)", "string(msg)", "int(msg)", "bool(msg)", "dyn(msg).b", "{msg: 1}", "{'k': msg}.k.b", "[msg][0].b", "msg.contains('a')", "msg.matches('a')", "msg.getHours()",
             "msg.unknown_method()", "msg.b(1)", "msg.a(1)", "msg{a: 1}", "msg.b == msg.b", "[msg.b]", "{'k': msg.b}", "size([msg.b])"]
    nmsg = 0
    for text in forms:
        for rr, prob, detail in classify(text, {"msg": msg}):
            nmsg += 1
            if prob:
                ctx.disagree("message value %s: %s runner=%s" % (re.sub(r"[a-z0-9_'\" ]+", "_", text)[:30], prob, rr), {"cel": text, "binding": "msg = MessageType({'a': 1})", "runner": rr, "problem": prob, "msg": detail})
    nobs += nmsg
    ctx.cov["message_value_forms"] = len(forms)
    # every literal text of the C07 string model, well-formed or not (escapes that do not belong, \\u in bytes, ...)
    r = ctx.tlc("MC_C07", "SPECIFICATION Spec\nCONSTANTS LEN = 2\nCHECK_DEADLOCK FALSE\n", dump=True, name="literal texts, well-formed or not")
    lits = sorted(set("".join(chr(c) for c in s["text"]) for s in read_dump(r.dump)))
    lits += json.load(open(__file__.rsplit("/", 1)[0] + "/odd_literals.json"))
    # every number spelling of the C07 number model (signs, leading zeros, hex, suffixes, exponents; in and out of range)
    from . import c07
    r = ctx.tlc("MC_C07N", c07.INVN, dump=True, name="number literal spellings")
    nums = sorted(set(c07.s_of(s["text"]) for s in read_dump(r.dump) if s["text"]))
    lits += nums + ["[1, %s]" % t for t in nums[::7]] + ["1 - %s" % t for t in nums[::11]]
    for text, res in zip(lits, pmap(_eval_text, lits)):
        for rr, prob, msg in res:
            if prob:
                ctx.disagree("literal %s: %s runner=%s" % (lit_shape(text), prob, rr), {"cel": text, "runner": rr, "problem": prob, "msg": msg})
    nobs += 2 * len(lits)
    ctx.cov["replayed_literal_texts"] = len(lits)
    r = ctx.tlc("MC_C04", 'SPECIFICATION Spec\nCONSTANTS MODE = "tokens" LEN = %d\n%s' % (3 if q else 4, INV), dump=True, name="all token sequences")
    tstates = [(s["toks"], s["acc"]) for s in read_dump(r.dump) if s["toks"]]
    for n, bad in pmap(_replay_tokens, tstates):
        nobs += n
        for sig, case in bad:
            ctx.disagree(sig, case)
    ctx.cov["replayed_token_sequences"] = len(tstates)
    ctx.cov["accepted_token_sequences"] = sum(1 for _, a in tstates if a)
    ctx.cov["traces_validated_against_impl"] += len(items) + len(tstates)
    ctx.cov["evaluations"] += nobs
    for it in items[:: max(1, len(items) // 4)][:4]:
        ctx.sample({"cel": celx.render_ast(it[0])})
    ctx.sample({"tokens": " ".join(t["s"] for t in tstates[len(tstates) // 2][0]), "grammar_accepts": tstates[len(tstates) // 2][1]})
    # code -> spec (1): random nested ill-typed programs: judged by Trace_Eval where the spec is definite, by outcome class otherwise
    rng = random.Random(ctx.seed)
    leafset = [it[0] for it in items if False]
    from .c09 import L
    lv = [L("int", 1), L("uint", 1), L("double", 1.5), L("bool", True), {"k": "lit", "v": {"t": "null"}}, L("string", "a"), L("bytes", b"a"),
          {"k": "lit", "v": celx.enc({"t": "list", "v": []})}, {"k": "lit", "v": celx.enc({"t": "list", "v": [{"t": "int", "v": 1}]})},
          {"k": "lit", "v": celx.enc({"t": "map", "v": [[{"t": "string", "v": "a"}, {"t": "int", "v": 1}]]})},
          L("timestamp", 0), L("duration", 10**6), {"k": "lit", "v": {"t": "type", "v": "int"}},
          {"k": "bin", "op": "/", "l": L("int", 1), "r": L("int", 0)}, {"k": "var", "n": "undeclared"}]
    progs = [rand_nested(rng, lv, rng.randint(2, 4)) for _ in range(1500 if q else 40000)]
    texts = [celx.render_ast(p) for p in progs]
    eval_events = []
    for p, text, res in zip(progs, texts, pmap(_eval_text, texts)):
        for rr, prob, msg in res:
            eval_events.append((p, text, rr, prob, msg))
    ctx.cov["evaluations"] += 2 * len(progs)
    ctx.cov["random_nested_programs"] = len(progs)
    # code -> spec (2): compile() on arbitrary strings: corpus texts with single-character mutations, random short strings
    alphabet = list("ab1 \"'\\[](){}.?:\n") + ["é", "\t", "/", "-", "=", "<", "&", "|", "!", "0", "x", ","]
    corp = [t for _, t in corpus.expressions()]
    strs = []
    for _ in range(1500 if q else 40000):
        if rng.random() < 0.6:
            t = rng.choice(corp)
            j = rng.randrange(len(t) + 1)
            kind = rng.random()
            t = t[:j] + rng.choice(alphabet) + t[j:] if kind < 0.4 else (t[:j] + t[j + 1:] if kind < 0.7 else t[:j] + rng.choice(alphabet) + t[j + 1:])
            strs.append(t)
        else:
            strs.append("".join(rng.choice(alphabet) for _ in range(rng.randint(0, 6))))
    evs = pmap(_compile_event, strs)
    lines = []
    for text, ev in zip(strs, evs):
        if ev["kind"].startswith("exc:"):
            ctx.disagree("compile escapes: %s" % ev["kind"][4:], {"text": text})
        for prob in ev.get("render", []):
            ctx.disagree("parse error: " + prob, {"text": text})
        lines.append({"lens": ev["lens"], "kind": ev["kind"] if not ev["kind"].startswith("exc:") else "tree", "line": ev["line"], "col": ev["col"]})
    ncompile = len(lines)
    for p, text, rr, prob, msg in eval_events:
        lines.append({"lens": [0], "kind": "val" if not prob else "bad", "line": 0, "col": 0})
    tf = ctx.work / "compile.ndjson"
    write_ndjson(tf, lines)
    tr = ctx.tlc("Trace_C04", "INIT Init\nNEXT Next\nPOSTCONDITION Post\nCHECK_DEADLOCK FALSE\n", workers=1, env={"TRACE_FILE": str(tf)}, name="trace validation (compile)")
    rej, cons = trace_verdict(tr.stdout, len(lines))
    for idx, what in rej:
        if idx > ncompile:
            p, text, rr, prob, msg = eval_events[idx - 1 - ncompile]
            ctx.disagree("%s(%s): %s runner=%s" % (root_of(p), "nested", prob, rr), {"cel": text, "runner": rr, "problem": prob, "msg": msg, "prog": p, "from": "trace"})
            continue
        ev = evs[idx - 1]
        text = strs[idx - 1]
        kind = "bool-literal token" if ev.get("none") else "out of range"
        ctx.disagree("parse error not located (line=%r column=%r) %s" % (None if ev.get("none") else ev["line"], None if ev.get("none") else ev["col"], kind), {"text": text, "from": "trace"})
    ctx.cov["traces_validated_against_impl"] += len(lines)
    ctx.cov["evaluations"] += len(lines)
    ctx.cov["compile_events"] = ncompile
    ctx.cov["evaluate_events"] = len(lines) - ncompile
    ctx.assumptions += ["token sequences are rendered space-separated (lexical maximal munch is out of model)",
                        "activations contain CEL values only (including a message value bound as a variable); protobuf message construction is not generated"]
    return ctx.finish(rule="TLC enumerates every operator / member form / function / method / macro over 14 value kinds (ill-typed included) and every "
                           "token sequence up to the length bound; the implementation may only return a value or raise CELEvalError / CELParseError "
                           "(located, renderable with str() and repr()); accept/reject must agree with the grammar; random nested programs and "
                           "mutated strings go through Trace_Eval / Trace_C04. distinct = distinct programs + token sequences + strings",
                      extra={"distinct_nontrivial": len(items) + len(tstates) + len(set(texts)) + len(set(strs))})


def replay(path):
    d = json.load(open(path))
    c = d["case"]
    if "cel" in c:
        res = classify(c["cel"])
        print(c["cel"], res)
        return 1 if any(p for _, p, _ in res) else 0
    ev = _compile_event(c["text"])
    print(repr(c["text"]), ev)
    return 1 if ev["kind"].startswith("exc") or ev.get("none") else 0
