"""C07 literals denote the values they spell.  Spec: CelLiteral.tla; models MC_C07 (strings/bytes), MC_C07N (numbers)."""
from __future__ import annotations

import json
import random

from . import celx
from .core import Ctx, read_dump, write_ndjson, trace_verdict, pmap, big, unbig

INV = "INVARIANT DecodeAgrees\nINVARIANT FormIndependent\nINVARIANT Homomorphic\nCHECK_DEADLOCK FALSE\n"
INVN = "SPECIFICATION Spec\nINVARIANT IntDenotes\nINVARIANT SpellingIndependent\nINVARIANT FloatSign\nCHECK_DEADLOCK FALSE\n"


def s_of(cps):
    return "".join(chr(c) for c in cps)


def exp_of(w):
    t = w["t"]
    if t in ("string", "bytes"):
        return {"t": t, "v": list(w["v"])}
    if t in ("int", "uint"):
        return {"t": t, "v": unbig(w)}
    if t == "double":
        return {"t": t, "v": celx.undyadic(w)}
    return {"t": t}


def observe(text):
    out = {}
    for r in ("I", "C"):
        a = celx.outcome_abs(celx.run(text, {}, r, cache=False))
        if a["t"] == "string":
            a = {"t": "string", "v": [ord(c) for c in a["v"]], "py": a["py"]}
        elif a["t"] == "bytes":
            a = {"t": "bytes", "v": list(a["v"]), "py": a["py"]}
        out[r] = a
    return out


def agree(exp, got):
    if exp["t"] == "indef":
        return True
    if exp["t"] == "err":
        return got["t"] == "err"
    if exp["t"] != got["t"]:
        return False
    if exp["t"] == "double":
        return celx.same(exp, got)
    return exp["v"] == got["v"]


def sig_str(style, items, exp, got):
    kinds = "".join(sorted(set(it["k"] for it in items)))
    st = ("b" if style["b"] else "") + ("r" if style["r"] else "") + style["q"]
    nonascii = any(it["k"] == "c" and it["v"] > 127 for it in items)
    return "literal %s items=%s%s%s -> %s" % (st, kinds, "+nonascii" if nonascii else "", " long" if len(exp.get("v", [])) > 400 else "", got["t"] if got["t"] != exp["t"] else "other value")


def _replay(item):
    kind, meta, text, exp = item
    obs = observe(text)
    bad = []
    for r, got in obs.items():
        if not agree(exp, got):
            if kind == "str":
                sig = sig_str(meta["style"], meta["items"], exp, got) + " runner=" + r
            else:
                sp = meta
                if kind == "int":
                    sig = "int literal %s%s%s%s -> %s runner=%s" % ("neg " if sp["neg"] else "", "hex " if sp["hex"] else "dec ", "zeros " if sp["zeros"] else "", "uint" if sp["uns"] else "int",
                                                               got["t"] if got["t"] != exp["t"] else "other value", r)
                else:
                    sig = "float literal -> %s runner=%s" % (got["t"] if got["t"] != exp["t"] else "other value", r)
            bad.append((sig, {"kind": kind, "text": text, "expected": exp, "observed": got, "runner": r, "meta": meta}))
    return len(obs), bad


# ---- the harness's own encoder (code -> spec direction); the specification's decoder judges the result
SIMPLE = {7: "a", 8: "b", 12: "f", 10: "n", 13: "r", 9: "t", 11: "v", 92: "\\", 34: '"', 39: "'"}


def encode(rng, value, is_bytes, raw, q):
    quote = {"d": '"', "s": "'", "td": '"""', "ts": "'''"}[q]
    qc = quote[0]
    triple = len(quote) == 3
    out = []
    units = list(value)     # code points or octets
    if raw:
        body = s_of(units) if not is_bytes else bytes(units).decode("utf-8")
        return ("b" if is_bytes else "") + "r" + quote + body + quote
    j = 0
    if is_bytes:
        # group maximal valid UTF-8 runs as plain text sometimes
        pass
    prev_plain_quote = False
    for u in units:
        choice = rng.random()
        plain_ok = (not is_bytes or u < 128) and u not in (92, 10, 13) and u >= 32 and u != 0x7f and not (u == ord(qc)) and (not is_bytes or u < 128)
        if not is_bytes and 0xd800 <= u <= 0xdfff:
            plain_ok = False
        if plain_ok and choice < 0.5:
            out.append(chr(u))
        elif u in SIMPLE and choice < 0.8:
            out.append("\\" + SIMPLE[u])
        elif u < 256 and choice < 0.9:
            out.append("\\x%02x" % u if rng.random() < 0.5 else "\\x%02X" % u)
        elif u < 256:
            out.append("\\%03o" % u)
        elif u < 0x10000 and rng.random() < 0.6:
            out.append("\\u%04x" % u)
        else:
            out.append("\\U%08x" % u)
    return ("b" if is_bytes else "") + quote + "".join(out) + quote


def rand_string(rng):
    n = rng.randint(0, 12)
    pools = [(32, 126), (0, 31), (0x80, 0x7ff), (0x800, 0xd7ff), (0xe000, 0xffff), (0x10000, 0x10ffff)]
    return [rng.randint(*rng.choice(pools)) for _ in range(n)]


def raw_ok(cps, q, is_bytes):
    qc = '"' if q in ("d", "td") else "'"
    s = s_of(cps)
    if "\\" in s or qc in s or "\r" in s:
        return False
    if q in ("d", "s") and "\n" in s:
        return False
    return True


def _observe_text(text):
    return observe(text)


def run(ctx: Ctx) -> int:
    q = ctx.quick
    items = []
    r = ctx.tlc("MC_C07", "SPECIFICATION Spec\nCONSTANTS LEN = %d\n%s" % (2 if q else 3, INV), dump=True,
                name="string/bytes literals: 16 styles x item sequences")
    nvalid = 0
    for s in read_dump(r.dump):
        if s["valid"]:
            nvalid += 1
            items.append(("str", {"style": s["style"], "items": s["items"]}, s_of(s["text"]), exp_of(s["exp"])))
    # long literals (invariant Homomorphic): states whose items do not interact with their neighbours, repeated to 600 / 5000 characters
    free = [it for it in items if it[1]["items"] and all(x["k"] != "c" or x["v"] not in (34, 39, 92, 10, 13) for x in it[1]["items"])]
    nlong = 0
    for j, (_, meta, text, exp) in enumerate(free[:: max(1, len(free) // (160 if q else 3000))]):
        st = meta["style"]
        ql = 3 if st["q"] in ("td", "ts") else 1
        head = (1 if st["b"] else 0) + (1 if st["r"] else 0) + ql
        body = text[head: len(text) - ql]
        for target in ((600, 5000)[j % 2],):
            n = -(-target // max(1, len(body)))
            items.append(("str", {"style": st, "items": meta["items"], "repeated": n}, text[:head] + body * n + text[len(text) - ql:], {"t": exp["t"], "v": exp["v"] * n}))
            nlong += 1
    ctx.cov["long_literals"] = nlong
    r = ctx.tlc("MC_C07N", INVN, dump=True, name="number literals: spellings x boundary pool")
    for s in read_dump(r.dump):
        if s["kind"] in ("int", "float"):
            items.append((s["kind"], s["sp"] if s["kind"] == "int" else {k: v for k, v in s["sp"].items()}, s_of(s["text"]), exp_of(s["exp"])))
    for it in items:
        if it[0] == "int":
            it[1]["m"] = unbig({"m": it[1]["m"]})
    nobs = 0
    for n, bad in pmap(_replay, items):
        nobs += n
        for sig, case in bad:
            ctx.disagree(sig, case)
    ctx.cov["traces_validated_against_impl"] += len(items)
    ctx.cov["evaluations"] += nobs
    ctx.cov["replayed_states"] = len(items)
    ctx.cov["indefinite_states"] = sum(1 for it in items if it[3]["t"] == "indef")
    for it in items[:: max(1, len(items) // 5)][:5]:
        ctx.sample({"text": it[2], "expected": it[3]})
    # code -> spec
    rng = random.Random(ctx.seed)
    texts = []
    for _ in range(600 if q else 100000):
        is_bytes = rng.random() < 0.4
        qq = rng.choice(["d", "s", "td", "ts"])
        if is_bytes:
            val = [rng.randint(0, 255) for _ in range(rng.randint(0, 10))] if rng.random() < 0.5 else list(s_of(rand_string(rng)).encode("utf-8", "surrogatepass")) 
            if any(0xd800 <= c <= 0xdfff for c in []):
                pass
            raw = False
            texts.append(("str", encode(rng, val, True, raw, qq)))
        else:
            val = [c for c in rand_string(rng) if not 0xd800 <= c <= 0xdfff]
            raw = rng.random() < 0.2 and raw_ok(val, qq, False) and all(c >= 32 or c == 10 for c in val)
            texts.append(("str", encode(rng, val, False, raw, qq)))
    for _ in range(300 if q else 30000):
        v = rng.choice([rng.randint(0, 2**64 + 5), rng.randint(0, 2**63 + 2), rng.randint(0, 300), 2**63, 2**64 - 1, 2**63 - 1])
        neg = rng.random() < 0.4
        hexa = rng.random() < 0.4
        digits = ("%x" % v if rng.random() < 0.5 else "%X" % v) if hexa else "%d" % v
        text = ("-" if neg else "") + ("0x" if hexa else "") + "0" * rng.choice([0, 0, 1, 3]) + digits + rng.choice(["", "", "u", "U"])
        texts.append(("int", text))
    obs = pmap(_observe_text, [t for _, t in texts])
    lines, index = [], []
    for (kind, text), o in zip(texts, obs):
        for rr, got in o.items():
            if got["t"] in ("int", "uint"):
                w = {"t": got["t"], **big(got["v"])}
            elif got["t"] in ("string", "bytes"):
                w = {"t": got["t"], "v": got["v"]}
            else:
                w = {"t": got["t"] if got["t"] in ("err",) else "other:" + got["t"]}
            lines.append({"kind": kind, "text": [ord(c) for c in text], "out": w})
            index.append((kind, text, rr, got))
    tf = ctx.work / "trace.ndjson"
    write_ndjson(tf, lines)
    tr = ctx.tlc("Trace_C07", "INIT Init\nNEXT Next\nPOSTCONDITION Post\nCHECK_DEADLOCK FALSE\n", workers=1,
                 env={"TRACE_FILE": str(tf)}, name="trace validation")
    rej, cons = trace_verdict(tr.stdout, len(lines))
    for idx, exp in rej:
        kind, text, rr, got = index[idx - 1]
        e = exp_of(exp)
        if kind == "int":
            sig = "int literal %s%s%s%s -> %s runner=%s" % ("neg " if text.startswith("-") else "", "hex " if "0x" in text else "dec ",
                                                           "zeros " if (text.lstrip("-").replace("0x", "", 1).startswith("0") and len(text.lstrip("-").replace("0x", "", 1).rstrip("uU")) > 1) else "",
                                                           "uint" if text[-1] in "uU" else "int", got["t"] if got["t"] != e["t"] else "other value", rr)
        else:
            sig = "random %s literal -> %s runner=%s" % ("bytes" if text[0] in "bB" else "string", got["t"] if got["t"] != e["t"] else "other value", rr)
        ctx.disagree(sig, {"kind": kind, "text": text, "expected": e, "observed": got, "runner": rr, "from": "trace"})
    ctx.cov["traces_validated_against_impl"] += len(lines)
    ctx.cov["evaluations"] += len(lines)
    ctx.cov["trace_events"] = len(lines)
    ctx.cov["trace_events_indefinite"] = cons[3]
    ctx.assumptions += ["floating literals are compared only when the spelled decimal is itself a binary64 value (rounding is out of model)",
                        "\\u / \\U escapes inside bytes literals are not generated (the language definition allows them in strings only)",
                        "raw literals containing a backslash directly before a quote are not generated"]
    return ctx.finish(rule="TLC enumerates item sequences (plain characters and every escape form) x 16 quoting styles and every spelling of the "
                           "integer boundary pool plus float spellings; the character-level decoder is checked against the item-level "
                           "denotation in the model; each literal is evaluated under both runners; random strings / byte strings / integers "
                           "are encoded by the harness and judged by the specification's decoder. distinct = distinct literal texts",
                      extra={"distinct_nontrivial": len(set(it[2] for it in items)) + len(set(t for _, t in texts))})


def replay(path):
    d = json.load(open(path))
    c = d["case"]
    obs = observe(c["text"])
    print(repr(c["text"]), obs, "expected", c["expected"])
    return 0 if all(agree(c["expected"], g) for g in obs.values()) else 1
