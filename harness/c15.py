"""C15 JSON documents convert to CEL values and back without loss.  Spec: CelJson.tla; model MC_C15; trace Trace_C15."""
from __future__ import annotations

import json
import math
import random
import re

from . import celx
from .celx import ct
from .core import Ctx, read_dump, write_ndjson, trace_verdict, pmap, big, unbig
from celpy.adapter import json_to_cel, CELJSONEncoder, CELJSONDecoder

INV = "SPECIFICATION Spec\nCONSTANT DEPTH = %d\nINVARIANT RoundTrip\nINVARIANT BoolStaysBool\nINVARIANT PathsCommute\nINVARIANT Base64Shape\nCHECK_DEADLOCK FALSE\n"


def s_of(cps):
    return "".join(chr(c) for c in cps)


def to_py(d):
    j = d["j"]
    if j == "null":
        return None
    if j == "bool":
        return bool(d["v"])
    if j == "int":
        return unbig(d)
    if j == "float":
        return celx.undyadic(d)
    if j == "str":
        return s_of(d["v"])
    if j == "arr":
        return [to_py(x) for x in d["v"]]
    return {s_of(k): to_py(v) for k, v in d["v"]}


def from_py(x):
    """Python JSON value (as json.loads gives it) -> abstract document, type-strict"""
    if x is None:
        return {"j": "null"}
    if isinstance(x, bool):
        return {"j": "bool", "v": x}
    if isinstance(x, int):
        return {"j": "int", **big(x)}
    if isinstance(x, float):
        return {"j": "float", **celx.dyadic(x)}
    if isinstance(x, str):
        return {"j": "str", "v": [ord(c) for c in x]}
    if isinstance(x, list):
        return {"j": "arr", "v": [from_py(y) for y in x]}
    if isinstance(x, dict):
        return {"j": "obj", "v": [[[ord(c) for c in k], from_py(v)] for k, v in x.items()]}
    return {"j": "other:" + type(x).__name__}


def same_doc(a, b):
    if a.get("j") != b.get("j"):
        return False
    if a["j"] == "obj":
        if len(a["v"]) != len(b["v"]):
            return False
        bm = {tuple(k): v for k, v in b["v"]}
        return all(tuple(k) in bm and same_doc(v, bm[tuple(k)]) for k, v in a["v"])
    if a["j"] == "arr":
        return len(a["v"]) == len(b["v"]) and all(same_doc(x, y) for x, y in zip(a["v"], b["v"]))
    return a == b


def paths(d):
    out = [[]]
    if d["j"] == "arr":
        for k, x in enumerate(d["v"]):
            out += [[["i", k]] + p for p in paths(x)]
    elif d["j"] == "obj":
        for key, x in d["v"]:
            out += [[["f", key]] + p for p in paths(x)]
    return out


def navigate(d, p):
    for kind, k in p:
        if kind == "i":
            d = d["v"][k]
        else:
            d = next(v for kk, v in d["v"] if kk == k)
    return d


def path_text(p, style):
    out = "doc"
    for j, (kind, k) in enumerate(p):
        if kind == "i":
            out += "[%d]" % k
        else:
            key = s_of(k)
            if re.fullmatch(r"[_a-zA-Z][_a-zA-Z0-9]*", key) and (style + j) % 2 == 0 and key not in ("in", "true", "false", "null"):
                out += "." + key
            else:
                out += "[%s]" % celx.strlit(key)
    return out


def kinds(d):
    k = {d["j"]}
    if d["j"] == "arr":
        for x in d["v"]:
            k |= kinds(x)
    elif d["j"] == "obj":
        for _, x in d["v"]:
            k |= kinds(x)
    return k


def observe(doc, style=0, with_paths=True):
    """-> (cel abstract wire or problem, back abstract doc or problem, [(path, value wire)])"""
    py = to_py(doc)
    probs = []
    try:
        cel = json_to_cel(py)
    except Exception as ex:  # noqa: BLE001
        return {"t": "exc:" + type(ex).__name__}, {"j": "none"}, []
    celw = celx.enc(celx.strip_py(celx.project(cel)))
    # the decoder class must give the same value from the JSON text
    try:
        text = json.dumps(py)
        cel2 = json.loads(text, cls=CELJSONDecoder)
        if celx.enc(celx.strip_py(celx.project(cel2))) != celw and not any(isinstance(v, float) and (math.isnan(v) or math.isinf(v)) for v in [0.0]):
            celw = {"t": "decoder-differs"}
    except Exception as ex:  # noqa: BLE001
        celw = {"t": "exc:decoder:" + type(ex).__name__}
    try:
        back = from_py(json.loads(json.dumps(cel, cls=CELJSONEncoder)))
    except Exception as ex:  # noqa: BLE001
        back = {"j": "exc:" + type(ex).__name__}
    pv = []
    if with_paths:
        for p in paths(doc):
            if not p:
                continue
            text = path_text(p, style)
            for r in ("I", "C"):
                got = celx.outcome_abs(celx.run(text, {"doc": cel}, r))
                pv.append((p, r, text, celx.enc(celx.strip_py(got)) if got["t"] not in ("exc", "parse") else {"t": "other:" + got["t"]}))
    return celw, back, pv


def _replay(item):
    doc, celw_exp, back_exp, style = item
    bad = []
    if celw_exp is None:
        return 0, bad
    celw, back, pv = observe(doc, style)
    ks = ",".join(sorted(kinds(doc)))
    if celw != celw_exp:
        bad.append(("json_to_cel {%s}: %s" % (ks, "types differ" if json.dumps(celw).replace('"t": "bool"', "").replace('"t": "int"', "") else "values differ"),
                    {"doc": doc, "expected": celw_exp, "observed": celw}))
    if not same_doc(back, doc):
        bad.append(("round trip {%s}: encoder output differs" % ks, {"doc": doc, "observed_back": back}))
    n = 2
    for p, r, text, got in pv:
        n += 1
        want = celx.enc(celx.dec(tocel(navigate(doc, p))))
        if got != want:
            bad.append(("navigate %s runner=%s" % ("".join(k for k, _ in p), r), {"doc": doc, "path": text, "expected": want, "observed": got}))
    return n, bad


def tocel(d):
    """the specification's ToCel, applied by the harness only to build expected values of paths (checked against TLC in PathsCommute)"""
    j = d["j"]
    if j == "null":
        return {"t": "null"}
    if j == "bool":
        return {"t": "bool", "v": d["v"]}
    if j == "int":
        return {"t": "int", "neg": d["neg"], "m": d["m"]}
    if j == "float":
        return {"t": "double", "c": d["c"], "neg": d["neg"], "m": d["m"], "e": d["e"]}
    if j == "str":
        return {"t": "string", "v": d["v"]}
    if j == "arr":
        return {"t": "list", "v": [tocel(x) for x in d["v"]]}
    return {"t": "map", "v": [[{"t": "string", "v": k}, tocel(v)] for k, v in d["v"]]}


def _encode_special(item):
    celw, back_exp = item
    v = celx.to_cel(celx.dec(celw))
    try:
        back = from_py(json.loads(json.dumps(v, cls=CELJSONEncoder)))
    except Exception as ex:  # noqa: BLE001
        back = {"j": "exc:" + type(ex).__name__}
    return back


def rfc3339_instant(text):
    """RFC 3339 text -> microseconds since the epoch (own arithmetic), or None"""
    import re
    m = re.fullmatch(r"(\d{4})-(\d\d)-(\d\d)[Tt](\d\d):(\d\d):(\d\d)(?:\.(\d{1,9}))?([Zz]|[+-]\d\d:\d\d)", text)
    if not m:
        return None
    y, mo, d, hh, mm, ss = (int(m.group(i)) for i in range(1, 7))
    us = int((m.group(7) or "0").ljust(6, "0")[:6])
    off = 0 if m.group(8) in "Zz" else (1 if m.group(8)[0] == "+" else -1) * (int(m.group(8)[1:3]) * 60 + int(m.group(8)[4:6]))
    return ((celx.days_from_civil(y, mo, d) * 86400 + hh * 3600 + mm * 60 + ss - off * 60) * 10**6) + us


def _encode_zoned(item):
    """a timestamp VALUE that carries a zone other than UTC: the JSON text must still denote the same instant"""
    us, off = item
    import datetime
    tz = datetime.timezone(datetime.timedelta(minutes=off))
    v = celx.ct.TimestampType((celx.EPOCH + datetime.timedelta(microseconds=us)).astimezone(tz))
    try:
        text = json.loads(json.dumps(v, cls=CELJSONEncoder))
    except Exception as ex:  # noqa: BLE001
        return "exc:" + type(ex).__name__, None
    return text, rfc3339_instant(text) if isinstance(text, str) else None


def rand_doc(rng, depth):
    k = rng.random()
    if depth == 0 or k < 0.45:
        c = rng.randrange(8)
        if c == 0:
            return {"j": "null"}
        if c == 1:
            return {"j": "bool", "v": rng.random() < 0.5}
        if c in (2, 3):
            return {"j": "int", **big(rng.choice([rng.randint(-2**63, 2**63 - 1), rng.randint(-3, 3), 0, 1]))}
        if c in (4, 5):
            return {"j": "float", **celx.dyadic(rng.choice([rng.random(), -0.0, 0.0, 1.0, 1e300, 5e-324, math.ldexp(rng.randint(-2**53, 2**53), rng.randint(-60, 60)), float(rng.randint(-5, 5))]))}
        return {"j": "str", "v": [rng.choice([97, 98, 34, 92, 10, 0xe9, 0x1f431, 32, 0x7f, 0x2028]) for _ in range(rng.randint(0, 4))]}
    if k < 0.72:
        return {"j": "arr", "v": [rand_doc(rng, depth - 1) for _ in range(rng.randint(0, 3))]}
    keys = []
    for _ in range(rng.randint(0, 3)):
        key = [rng.choice([97, 98, 99, 0xe9, 32, 46, 0x1f431]) for _ in range(rng.randint(0, 3))]
        if key not in keys:
            keys.append(key)
    return {"j": "obj", "v": [[key, rand_doc(rng, depth - 1)] for key in keys]}


def _observe_random(item):
    doc, style = item
    celw, back, pv = observe(doc, style)
    return celw, back, [(p, r, t, g) for p, r, t, g in pv if r == "I"], [(p, r, t, g) for p, r, t, g in pv if r == "C"]


def run(ctx: Ctx) -> int:
    q = ctx.quick
    r = ctx.tlc("MC_C15", INV % 2, dump=True, name="documents to depth 2 + special encodings")
    states = read_dump(r.dump)
    items, specials = [], []
    for j, s in enumerate(states):
        if s["doc"]["j"] == "null" and s["cel"]["t"] != "null":
            specials.append((s["cel"], s["back"]))
        else:
            items.append((s["doc"], s["cel"], s["back"], j))
    if q:
        items = items[::3]
        ctx.cov["replay_note"] = "quick: every third document replayed (all model-checked)"
    nobs = 0
    for n, bad in pmap(_replay, items):
        nobs += n
        for sig, case in bad:
            ctx.disagree(sig, case)
    for (celw, back_exp), back in zip(specials, pmap(_encode_special, specials)):
        nobs += 1
        if not same_doc(back, back_exp):
            kind = celw["t"] if celw["t"] not in ("list", "map") else celw["t"] + " of " + (celw["v"][0]["t"] if celw["t"] == "list" else celw["v"][0][1]["t"])
            ctx.disagree("encode %s: text differs" % kind, {"cel": celw, "expected": back_exp, "observed": back})
    zoned = [(celx.dec(c)["v"], off) for c, _ in specials if c["t"] == "timestamp" for off in (-210, 345, -30, 60)
             if -62135596800 * 10**6 + 86400 * 10**6 < celx.dec(c)["v"] < 253402300799 * 10**6 - 86400 * 10**6]
    for (us, off), (text, inst) in zip(zoned, [_encode_zoned(z) for z in zoned]):
        nobs += 1
        if inst != us:
            ctx.disagree("encode timestamp in zone %+d min: %s" % (off, "another instant" if inst is not None else "not RFC 3339 text"),
                         {"instant_us": us, "zone_minutes": off, "emitted": text, "emitted_instant_us": inst})
    ctx.cov["zoned_timestamp_encodings"] = len(zoned)
    ctx.cov["traces_validated_against_impl"] += len(items) + len(specials)
    ctx.cov["evaluations"] += nobs
    ctx.cov["replayed_documents"] = len(items)
    ctx.cov["replayed_special_encodings"] = len(specials)
    for it in items[:: max(1, len(items) // 4)][:4]:
        ctx.sample({"json": json.dumps(to_py(it[0])), "cel": it[1]})
    # code -> spec
    rng = random.Random(ctx.seed)
    docs = [(rand_doc(rng, rng.randint(1, 4)), j) for j in range(300 if q else 40000)]
    res = pmap(_observe_random, docs)
    lines, index = [], []
    for (doc, style), (celw, back, pvi, pvc) in zip(docs, res):
        for rr, pv in (("I", pvi), ("C", pvc)):
            lines.append({"doc": doc, "cel": celw, "back": back, "paths": [{"p": p, "v": g} for p, _, _, g in pv]})
            index.append((doc, rr, pv))
    tf = ctx.work / "trace.ndjson"
    write_ndjson(tf, lines)
    tr = ctx.tlc("Trace_C15", "INIT Init\nNEXT Next\nPOSTCONDITION Post\nCHECK_DEADLOCK FALSE\n", workers=1, env={"TRACE_FILE": str(tf)}, name="trace validation")
    rej, cons = trace_verdict(tr.stdout, len(lines))
    for idx, why in rej:
        doc, rr, pv = index[idx - 1]
        ctx.disagree("random document {%s}: %s disagrees runner=%s" % (",".join(sorted(kinds(doc))), why, rr), {"doc": doc, "json": json.dumps(to_py(doc)), "why": why, "from": "trace"})
    ctx.cov["traces_validated_against_impl"] += len(lines)
    ctx.cov["evaluations"] += len(lines)
    ctx.cov["trace_events"] = len(lines)
    ctx.assumptions += ["JSON numbers are the binary64 / int64 values Python's json module parses; number text formatting is not part of the model",
                        "NaN and infinities are not JSON and are not generated"]
    return ctx.finish(rule="TLC enumerates JSON documents to depth 2 over scalar pools (booleans next to 0/1, int64 limits, -0.0, extreme exponents, empty / non-ASCII "
                           "strings and keys) and CEL timestamps / durations / bytes; Encode(ToCel(d)) = d and path commutation are model invariants; the "
                           "library's json_to_cel, CELJSONDecoder, CELJSONEncoder and CEL navigation (both runners) must agree with ToCel / Encode / "
                           "Navigate; random documents to depth 4 are judged by Trace_C15. distinct = distinct documents",
                      extra={"distinct_nontrivial": len(items) + len(specials) + len(docs)})


def replay(path):
    d = json.load(open(path))
    c = d["case"]
    if "doc" in c and "cel" not in c:
        celw, back, pv = observe(c["doc"])
        print(json.dumps(to_py(c["doc"])), "->", celw, "->", json.dumps(to_py(back)) if back.get("j", "").startswith(("n", "b", "i", "f", "s", "a", "o")) else back)
        return 0 if same_doc(back, c["doc"]) and celw == celx.enc(celx.dec(tocel(c["doc"]))) else 1
    print(c)
    return 1
