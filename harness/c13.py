"""C13 results carry their CEL type.  Spec: CelEval.tla (TypeName(Eval(e))); model MC_C13."""
from __future__ import annotations

import json
import random

from . import celx, evalx
from .celx import ct
from .core import Ctx, read_dump, pmap

INV = "SPECIFICATION Spec\nCONSTANT TIER = \"quick\"\nINVARIANT ArithKeepsType\nINVARIANT PredicatesAreBool\nINVARIANT TypeOfType\nCHECK_DEADLOCK FALSE\n"
NAMES = ["int", "uint", "double", "bool", "string", "bytes", "list", "map", "null_type", "timestamp", "duration", "type"]
CLASS = {"int": ct.IntType, "uint": ct.UintType, "double": ct.DoubleType, "bool": ct.BoolType, "string": ct.StringType,
         "bytes": ct.BytesType, "list": ct.ListType, "map": ct.MapType, "timestamp": ct.TimestampType, "duration": ct.DurationType}


def root(prog):
    k = evalx.node_kinds(prog)
    return (k[0] if k else "lit:" + prog["v"]["t"]) + ("+has" if "has" in k else "")


def _replay(item):
    prog, exp_w, ty = item
    # integer literals may be decimal or hexadecimal, the uint suffix u or U: the spelling is no part of the type
    plain = celx.render_ast(prog)
    celx.INT_HEX, celx.UINT_SUFFIX = len(plain) % 3 == 0, ("U" if len(plain) % 2 else "u")
    try:
        text = celx.render_ast(prog)
    finally:
        celx.INT_HEX, celx.UINT_SUFFIX = False, "u"
    exp = celx.dec(exp_w)
    bad, n = [], 0
    for r in ("I", "C"):
        o = celx.run(text, {}, r)
        got = celx.outcome_abs(o)
        n += 1
        if not evalx.agrees(exp, got):
            bad.append((evalx.sig(prog, exp, got, r), {"prog": prog, "cel": text, "runner": r, "expected": exp_w, "observed": got}))
            continue
        if ty in ("err", "indef"):
            continue
        # (a) the Python class of the value handed to the caller
        if ty in CLASS and o.kind == "val" and not isinstance(o["v"], CLASS[ty]):
            bad.append(("class: %s yields %s for CEL type %s runner=%s" % (root(prog), type(o["v"]).__name__, ty, r),
                        {"prog": prog, "cel": text, "runner": r, "cel_type": ty, "python_class": type(o["v"]).__name__}))
        if ty == "null_type" and o.kind == "val" and o["v"] is not None:
            bad.append(("class: %s yields %s for null runner=%s" % (root(prog), type(o["v"]).__name__, r), {"cel": text, "runner": r}))
        # (b) type(e) == T inside CEL, for each of the twelve names
        n += 1
        q = "[" + ", ".join("type(%s) == %s" % (text, nm) for nm in NAMES) + "]"
        oo = celx.run(q, {}, r)
        if oo.kind == "val" and isinstance(oo["v"], list) and len(oo["v"]) == 12:
            truth = [bool(x) for x in oo["v"]]
        else:
            truth = []
            for nm in NAMES:
                o1 = celx.run("type(%s) == %s" % (text, nm), {}, r)
                truth.append(bool(o1["v"]) if o1.kind == "val" else "fail:" + o1.kind)
        want = [nm == ty for nm in NAMES]
        if truth != want:
            wrong = [nm for nm, a, b in zip(NAMES, truth, want) if a != b]
            bad.append(("type(): %s of CEL type %s: wrong answer for {%s} runner=%s" % (root(prog), ty, ",".join(wrong), r),
                        {"prog": prog, "cel": text, "runner": r, "cel_type": ty, "answers": dict(zip(NAMES, truth))}))
    return n, bad


def run(ctx: Ctx) -> int:
    r = ctx.tlc("MC_C13", INV.replace("quick", ctx.tier), dump=True, name="typed roots, nested once")
    states = [s for s in read_dump(r.dump) if s["ty"] != "init"]
    items = [(s["prog"], s["exp"], s["ty"]) for s in states]
    nobs = 0
    for n, bad in pmap(_replay, items):
        nobs += n
        for sig, case in bad:
            ctx.disagree(sig, case)
    ctx.cov["traces_validated_against_impl"] += len(items)
    ctx.cov["evaluations"] += nobs
    ctx.cov["replayed_states"] = len(items)
    for it in items[:: max(1, len(items) // 5)][:5]:
        ctx.sample({"cel": celx.render_ast(it[0]), "cel_type": it[2]})
    # code -> spec: the C09 random programs, with the observed value's type tag part of the event (Trace_Eval compares tagged values)
    from .c09 import rand_prog
    rng = random.Random(ctx.seed + 13)
    progs = [(rand_prog(rng), []) for _ in range(600 if ctx.quick else 15000)]
    progs += [({"k": "call", "f": "type", "args": [p]}, []) for p, _ in progs[: len(progs) // 3]]
    evalx.validate_trace(ctx, progs)
    ctx.assumptions += ["conversion functions are covered by C10; here every operator, macro and built-in predicate is at the root or one level down"]
    return ctx.finish(rule="TLC instantiates every operator / function / macro with typed operands (12 types), each also nested under a conditional and a "
                           "list index; the harness checks value, Python class (isinstance of the celtypes class) and the twelve answers of "
                           "type(e) == T under both runners. distinct = distinct programs",
                      extra={"distinct_nontrivial": len(items) + len(progs)})


def replay(path):
    d = json.load(open(path))
    c = d["case"]
    if "expected" in c:
        return evalx.replay_file(path)
    o = celx.run(c["cel"], {}, c["runner"])
    print(c["cel"], "->", o.kind, type(o.get("v")).__name__, "expected CEL type", c.get("cel_type"))
    if c.get("cel_type") in CLASS and o.kind == "val":
        return 0 if isinstance(o["v"], CLASS[c["cel_type"]]) else 1
    return 1
