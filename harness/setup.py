"""setup_cmd: check that every specification module parses (SANY), that the BigInt oracle agrees with TLC's
native integers, and that the harness's own value plumbing round-trips."""
import concurrent.futures as cf
import subprocess
import sys

from . import core


def sany(path):
    p = subprocess.run(["java", "-cp", core.JAR, "tla2sany.SANY", str(path)], capture_output=True, text=True, cwd=str(core.SPECS))
    ok = p.returncode == 0 and "Semantic errors" not in p.stdout and "Fatal errors" not in p.stdout and "*** Errors" not in p.stdout
    return path.name, ok, p.stdout[-1500:]


def main():
    bad = 0
    mods = sorted(core.SPECS.glob("*.tla"))
    with cf.ThreadPoolExecutor(8) as ex:
        for name, ok, out in ex.map(sany, mods):
            print("SANY %-28s %s" % (name, "ok" if ok else "FAILED"))
            if not ok:
                print(out)
                bad += 1
    r = core.run_tlc("BigIntSelfCheck", "INIT Init\nNEXT Next\nINVARIANT Ok\nCONSTANT R = 70\nCHECK_DEADLOCK FALSE\n", core.WORK / "setup")
    print("BigIntSelfCheck: %d states, %s" % (r.distinct, "ok" if r.ok else "FAILED " + str(r.violated)))
    if not r.ok:
        bad += 1
    # value plumbing
    from . import celx
    print("arena allocator:", "built" if (core.ROOT / ".build" / "arena.so").exists() else "not available (checks run slower)")
    vals = [{"t": "int", "v": -2**63}, {"t": "uint", "v": 2**64 - 1}, {"t": "double", "v": -0.0}, {"t": "double", "v": 5e-324},
            {"t": "string", "v": "a\U0001f431\"\\\n"}, {"t": "bytes", "v": b"\x00\xff"}, {"t": "bool", "v": True}, {"t": "null"},
            {"t": "list", "v": [{"t": "int", "v": 1}, {"t": "string", "v": "x"}]},
            {"t": "map", "v": [[{"t": "string", "v": "k"}, {"t": "int", "v": 1}]]}]
    for v in vals:
        w = celx.enc(v)
        if not celx.same(celx.dec(w), v):
            print("value plumbing failed for", v)
            bad += 1
        o = celx.run(celx.lit(v), {}, "I")
        if o.kind != "val" or not celx.same(celx.strip_py(celx.project(o["v"])), v):
            print("literal rendering failed for", v, celx.lit(v), o)
            bad += 1
    x = core.parse_tla('[a |-> <<1, -2>>, b |-> {"x", "y"}, c |-> (1 :> TRUE @@ 2 :> FALSE), d |-> [e |-> <<>>]]')
    if x != {"a": [1, -2], "b": ["x", "y"], "c": {"1": True, "2": False}, "d": {"e": []}}:
        print("tla value parser failed", x)
        bad += 1
    import shutil
    shutil.rmtree(core.WORK / "setup", ignore_errors=True)
    print("setup", "FAILED" if bad else "ok")
    return 1 if bad else 0


if __name__ == "__main__":
    sys.exit(main())
