"""C18 policy translation preserves the filter's boolean structure.  Spec: C7nXlate.tla (+ CelSyntax); model MC_C18; trace Trace_C18."""
from __future__ import annotations

import itertools
import json
import os
import random
from concurrent.futures import ThreadPoolExecutor
from unittest import mock

import yaml

from . import celx
from .celx import ct
from .core import Ctx, read_dump, write_ndjson, trace_verdict, pmap, NCPU
from .c06 import tokenize
sys_path_done = False
import sys
sys.path.insert(0, os.environ.get("VERIF_REPO", "/repo") + "/src")
from xlate.c7n_to_cel import C7N_Rewriter  # noqa: E402
import celpy.c7nlib as c7nlib  # noqa: E402

INV = "SPECIFICATION Spec\nCONSTANT DEPTH = %d\nINVARIANT RefPreserves\nINVARIANT NaiveJoinRejected\nCHECK_DEADLOCK FALSE\n"
OR2_MARK = "verif-or2-"


def clause_filter(cls, i):
    """a primitive Custodian clause whose translation has the requested top-level operator"""
    if cls == "atom":
        return {"type": "value", "key": "A%d" % i, "value": i, "op": "eq"}
    if cls == "neg":
        return {"type": "value", "key": "B%d" % i, "value": False, "op": "eq"}
    if cls == "and2":
        return {"type": "marked-for-op", "tag": "t%d" % i, "op": "stop"}
    if cls == "cond":
        return {"type": "offhour", "offhour": 18 + i, "tag": "down%d" % i, "default_tz": "et"}
    if cls == "ncond":    # the translation begins with "!" but its top-level operator is ?:
        return {"type": "offhour", "offhour": 18 + i, "tag": "down%d" % i, "default_tz": "et", "skip-days": ["2021-01-0%d" % i]}
    if cls == "pand":     # the translation is "(A) && (B)": parenthesised at both ends, but not one group
        return {"type": "network-location", "compare": ["resource", "subnet"], "key": "tag:T%d" % i, "match": "equal", "max-cardinality": 1}
    if cls == "npand":    # "! (I) && (C)"
        return {"type": "network-location", "key": "tag:Owner%d" % i, "compare": ["subnet"], "ignore": [{"tag:Env": "dev%d" % i}]}
    if cls == "condbs":   # a conditional clause whose text contains a string literal that ends with a backslash
        return {"type": "offhour", "tag": "team%d\\" % i, "opt-out": True, "default_tz": "UTC", "offhour": 18 + i}
    if cls == "or2":      # no shipped rewriter has || at its top level: the clause text is supplied the way the repository's own tests do
        return {"type": "value", "key": OR2_MARK + str(i), "value": i, "op": "eq"}
    raise KeyError(cls)


_real_value_rewrite = C7N_Rewriter.type_value_rewrite


def _value_rewrite(resource, operation):
    key = operation.get("key", "")
    if isinstance(key, str) and key.startswith(OR2_MARK):
        i = key[len(OR2_MARK):]
        return 'resource["P%s"] == 1 || resource["Q%s"] == 2' % (i, i)
    return _real_value_rewrite(resource, operation)


def build(tree, cls):
    if tree["k"] == "prim":
        return clause_filter(cls[tree["i"] - 1], tree["i"])
    kids = [build(t, cls) for t in tree["kids"]]
    if tree["k"] == "list":
        return kids
    return {tree["k"]: kids}


def translate(tree, cls, via_yaml):
    filters = build(tree, cls)
    if not isinstance(filters, list):
        filters = [filters] if via_yaml else filters
    with mock.patch.object(C7N_Rewriter, "type_value_rewrite", staticmethod(_value_rewrite)):
        clauses = [C7N_Rewriter.primitive("ec2", clause_filter(cls[i - 1], i)) for i in (1, 2, 3)]
        if via_yaml:
            text = C7N_Rewriter.c7n_rewrite(yaml.safe_dump({"name": "p", "resource": "ec2", "filters": filters}))
        else:
            text = C7N_Rewriter.logical_connector("ec2", filters)
    return text, clauses


def shape(tree):
    if tree["k"] == "prim":
        return "p"
    return "%s(%s)" % (tree["k"], ",".join(shape(t) for t in tree["kids"]))


def _translate_item(item):
    tree, cls, via_yaml = item
    try:
        text, clauses = translate(tree, cls, via_yaml)
    except Exception as ex:  # noqa: BLE001
        return {"error": "%s: %s" % (type(ex).__name__, ex)}
    toks = tokenize(text)
    ctoks = [tokenize(c) for c in clauses]
    wrapped = {"k": "list", "kids": [tree]} if (via_yaml and tree["k"] != "list") else tree
    return {"text": text, "event": {"tree": wrapped, "clauses": ctoks, "emitted": toks} if toks is not None and all(c is not None for c in ctoks) else None}


# ---- (b) the emitted text evaluated by the library itself under resources that realise each truth assignment
def resource_for(cls, assign):
    res = {"Tags": []}
    now = "2021-06-01T00:00:00Z"
    for i, (c, truth) in enumerate(zip(cls, assign), 1):
        if c == "atom":
            res["A%d" % i] = i if truth else i + 100
        elif c == "neg":
            res["B%d" % i] = not truth
        elif c == "and2":
            res["Tags"].append({"Key": "t%d" % i, "Value": "msg:stop@2021-01-01" if truth else "msg:start@2021-01-01"})
    return res, now


def truth(tree, cv):
    if tree["k"] == "prim":
        return cv[tree["i"] - 1]
    vals = [truth(t, cv) for t in tree["kids"]]
    if tree["k"] in ("list", "and"):
        return all(vals)
    if tree["k"] == "or":
        return any(vals)
    return not all(vals)


def _evaluate_item(item):
    tree, cls = item
    text, _ = translate(tree, cls, False)
    bad = []
    from celpy.adapter import json_to_cel
    for assign in itertools.product([True, False], repeat=3):
        res, now = resource_for(cls, assign)
        bind = {"resource": json_to_cel(res), "now": ct.TimestampType(now)}
        o = celx.run(text, bind, "I", functions=c7nlib.FUNCTIONS)
        got = celx.outcome_abs(o)
        want = truth(tree, assign)
        if not (got["t"] == "bool" and got["v"] == want):
            bad.append(("library evaluation of %s classes=%s: %s" % (shape(tree), ",".join(cls), "other truth value" if got["t"] == "bool" else got["t"]),
                        {"tree": tree, "classes": cls, "cel": text, "assignment": assign, "expected": want, "observed": celx.strip_py(got)}))
            break
    return 8, bad


def run(ctx: Ctx) -> int:
    q = ctx.quick
    r = ctx.tlc("MC_C18", INV % (2 if q else 3), dump=True, name="filter trees x clause classes")
    states = read_dump(r.dump)
    if q:
        states = states[::24]
        ctx.cov["replay_note"] = "quick: every 24th (tree, classes) state translated (all model-checked)"
    elif len(states) > 120000:
        k = max(2, len(states) // 100000)
        states = states[::k]
        ctx.cov["replay_note"] = "thorough: every %dth state translated (all model-checked)" % k
    items = [(s["tree"], s["cls"], j % 3 == 0) for j, s in enumerate(states)]
    res = pmap(_translate_item, items)
    lines, index = [], []
    for it, rr in zip(items, res):
        if "error" in rr:
            ctx.disagree("translator raises for %s" % shape(it[0]), {"tree": it[0], "classes": it[1], "error": rr["error"]})
            continue
        if rr["event"] is None:
            ctx.disagree("emitted text cannot be tokenised", {"tree": it[0], "classes": it[1], "cel": rr["text"]})
            continue
        lines.append(rr["event"])
        index.append((it, rr["text"]))
    nb = max(1, min(NCPU // 2, len(lines) // 200))
    batch = (len(lines) + nb - 1) // nb
    starts = list(range(0, len(lines), batch))

    def one(s):
        tf = ctx.work / ("trace_%d.ndjson" % s)
        write_ndjson(tf, lines[s:s + batch])
        tr = ctx.tlc("Trace_C18", "INIT Init\nNEXT Next\nPOSTCONDITION Post\nCHECK_DEADLOCK FALSE\n", workers=1, env={"TRACE_FILE": str(tf)}, name="truth-table validation of emitted text")
        return s, trace_verdict(tr.stdout, len(lines[s:s + batch]))
    with ThreadPoolExecutor(nb) as ex:
        verdicts = list(ex.map(one, starts))
    for s, (rej, cons) in verdicts:
        for idx, why in rej:
            (tree, cls, via_yaml), text = index[s + idx - 1]
            inner = sorted(set(t["k"] for t in walk(tree) if t["k"] != "prim"))
            used = sorted(set(cls[t["i"] - 1] for t in walk(tree) if t["k"] == "prim"))
            ctx.disagree("%s: connectives{%s} clause-classes{%s}" % (why, ",".join(inner), ",".join(used)),
                         {"tree": tree, "shape": shape(tree), "classes": cls, "cel": text, "via": "c7n_rewrite" if via_yaml else "logical_connector", "why": why})
    ctx.cov["traces_validated_against_impl"] += len(lines)
    ctx.cov["evaluations"] += len(lines)
    ctx.cov["translations_validated"] = len(lines)
    for (it, text) in index[:: max(1, len(index) // 4)][:4]:
        ctx.sample({"tree": shape(it[0]), "classes": it[1], "cel": text[:300]})
    # (b) evaluation by the library itself
    evals = [(s["tree"], s["cls"]) for s in states if set(s["cls"]) <= {"atom", "neg", "and2"}]
    if q:
        evals = evals[::3]
    nev = 0
    for n, bad in pmap(_evaluate_item, evals):
        nev += n
        for sig, case in bad:
            ctx.disagree(sig, case)
    ctx.cov["evaluations"] += nev
    ctx.cov["library_evaluated_translations"] = len(evals)
    ctx.assumptions += ["clause families: value (atom, negated boolean), marked-for-op (&&), offhour (?:), offhour with skip-days (! ... ?:), network-location ((A) && (B)); a clause with || at its top level is supplied by patching "
                        "type_value_rewrite, as the repository's tests do, because no shipped rewriter produces one",
                        "library evaluation (b) covers the clause classes whose truth can be fixed through the resource document (value, marked-for-op)"]
    return ctx.finish(rule="TLC enumerates filter trees (list / and / or / not, 1-3 children, depth 2-3, singleton connectives) x clause-class assignments and checks "
                           "that a reference translation satisfies the contract; the REAL translator's output (logical_connector and c7n_rewrite from YAML) is "
                           "tokenised and TLC decides for every tree whether it parses and has the tree's truth table over all assignments to its atoms; the "
                           "library also evaluates the text under all 8 clause assignments. distinct = distinct (tree, classes)",
                      extra={"distinct_nontrivial": len(items)})


def walk(t):
    yield t
    for k in t.get("kids", []):
        yield from walk(k)


def replay(path):
    d = json.load(open(path))
    c = d["case"]
    text, clauses = translate(c["tree"], c["classes"], c.get("via") == "c7n_rewrite")
    print(shape(c["tree"]), c["classes"], "->", text)
    return 1
