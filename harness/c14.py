"""C14 host functions bind uniformly as functions or methods and override built-ins.  Spec: CelEval (HostApply, Calls); model MC_C14."""
from __future__ import annotations

import json

from . import celx, evalx, hostfns
from .core import Ctx, read_dump, pmap

INV = "SPECIFICATION Spec\nCONSTANT TIER = \"%s\"\nINVARIANT MethodIsFunction\nINVARIANT Absorbed\nINVARIANT Strict\nINVARIANT OverrideOnlyWhenSupplied\nCHECK_DEADLOCK FALSE\n"
CONFIGS = [(k, s) for k in ("module", "nested", "lambda", "object", "bound", "static", "classmethod") for s in ("list", "dict")]


def has_logic(prog):
    ks = evalx.node_kinds(prog)
    return any(k in ("&&", "||", "all", "exists") for k in ks)


def call_key(name, args):
    return json.dumps([name, [celx.strip_py(celx.project(a)) if not isinstance(a, celx.CELEvalError) else {"t": "err"} for a in args]], sort_keys=True, default=str)


def _replay(item):
    prog, ovr, exp_w, calls_w = item
    text = celx.render_ast(prog)
    exp = celx.dec(exp_w)
    want_calls = sorted(json.dumps([c[0], [celx.strip_py_dec(a) for a in c[1]]], sort_keys=True, default=str) for c in calls_w) if calls_w is not None else None
    bad, n = [], 0
    for kind, style in CONFIGS:
        for r in ("I", "C"):
            n += 1
            if ovr:
                # a program using the built-in first: building it must not fix what "size" means for the programs built later
                celx.run("size([1, 2])", {}, r, functions=None, cache=False)
            del hostfns.LOG[:]
            fns = hostfns.supply(kind, style, ovr)
            o = celx.run(text, {}, r, functions=fns, cache=False)
            got = celx.outcome_abs(o)
            log = sorted(call_key(nm, a) for nm, a in hostfns.LOG)
            cfg = "kind=%s style=%s runner=%s" % (kind, style, r)
            root = evalx.node_kinds(prog)
            shape = "%s/%s" % (prog["k"] if prog["k"] in ("call", "mcall") else root[0], "method" if prog["k"] == "mcall" else "global" if prog["k"] == "call" else "nested")
            if not evalx.agrees(exp, got):
                g = evalx.kind_of(got) if got["t"] != "exc" else "exc:%s@%s" % (got["cls"], got["phase"])
                bad.append(("outcome %s exp=%s got=%s %s" % (shape, evalx.kind_of(exp), g, cfg),
                            {"prog": prog, "cel": text, "override_size": ovr, "kind": kind, "style": style, "runner": r, "expected": exp_w, "observed": got}))
            elif want_calls is not None and not has_logic(prog) and log != want_calls:
                bad.append(("calls %s expected %d got %d %s" % (shape, len(want_calls), len(log), cfg),
                            {"prog": prog, "cel": text, "kind": kind, "style": style, "runner": r, "expected_calls": want_calls, "observed_calls": log}))
            # for this program only: a program built afterwards without the override sees the built-in again
            if ovr:
                o2 = celx.run("size([1, 2, 3])", {}, r, functions=None, cache=False)
                g2 = celx.outcome_abs(o2)
                if not (g2["t"] == "int" and g2["v"] == 3):
                    bad.append(("override leaks into a later program %s" % cfg, {"cel": "size([1, 2, 3])", "after": text, "observed": g2}))
    return n, bad


def run(ctx: Ctx) -> int:
    r = ctx.tlc("MC_C14", INV % ctx.tier, dump=True, name="call shapes x absorbing contexts x override")
    states = [s for s in read_dump(r.dump) if not (s["prog"]["k"] == "lit")]
    items = [(s["prog"], s["ovr"], s["exp"], s["calls"]) for s in states]
    nobs = 0
    for n, bad in pmap(_replay, items):
        nobs += n
        for sig, case in bad:
            ctx.disagree(sig, case)
    ctx.cov["traces_validated_against_impl"] += len(items)
    ctx.cov["evaluations"] += nobs
    ctx.cov["replayed_programs"] = len(items)
    ctx.cov["configurations_per_program"] = len(CONFIGS) * 2
    for it in items[:: max(1, len(items) // 5)][:5]:
        ctx.sample({"cel": celx.render_ast(it[0]), "override_size": it[1], "expected": it[2], "expected_calls": it[3]})
    ctx.assumptions += ["call counts are compared except under && / || / all / exists, where 'reached' is not fixed by the statement",
                        "host functions are variadic Python callables; arguments that are themselves errors are not generated"]
    return ctx.finish(rule="TLC enumerates call shapes (global / method, 0-3 arguments, nested, under every absorbing operator, inside macro bodies, "
                           "shadowing size, unbound names); expected outcome and call log depend on the shape only; each program is built with the "
                           "functions supplied as list / dict of module-level defs, nested defs, lambdas, callable objects under both runner "
                           "classes; bound, static and class methods of a module-level class as well (28 configurations) and every configuration must give the specified outcome and calls. distinct = programs x configurations",
                      extra={"distinct_nontrivial": len(items) * len(CONFIGS) * 2})


def replay(path):
    d = json.load(open(path))
    c = d["case"]
    if "prog" not in c:
        print(c)
        return 1
    fns = hostfns.supply(c["kind"], c["style"], c.get("override_size", False))
    o = celx.run(c["cel"], {}, c["runner"], functions=fns, cache=False)
    got = celx.outcome_abs(o)
    print(c["cel"], got, "expected", c.get("expected"))
    if "expected" in c:
        return 0 if evalx.agrees(celx.dec(c["expected"]), got) else 1
    return 1
