"""Host functions for C14, in every form an application can supply them.  Each records the arguments it receives."""
from celpy import celtypes as ct
from celpy.evaluation import CELEvalError

LOG = []


def _echo(*args):
    return ct.ListType(list(args))


def _zero(*args):
    return ct.IntType(7)


def _err(*args):
    return CELEvalError("host function says no")


def _val(*args):
    if len(args) == 2:
        raise ValueError            # no message, no arguments
    raise ValueError("host function raises ValueError")


def _typ(*args):
    if len(args) == 1:
        raise TypeError()
    raise TypeError("host function raises TypeError")


def _size(*args):
    return ct.IntType(-1)


IMPL = {"hecho": _echo, "hzero": _zero, "herr": _err, "hval": _val, "htyp": _typ, "size": _size}


# ---- module-level defs
def hecho(*args):
    LOG.append(("hecho", args))
    return _echo(*args)


def hzero(*args):
    LOG.append(("hzero", args))
    return _zero(*args)


def herr(*args):
    LOG.append(("herr", args))
    return _err(*args)


def hval(*args):
    LOG.append(("hval", args))
    return _val(*args)


def htyp(*args):
    LOG.append(("htyp", args))
    return _typ(*args)


def size(*args):
    LOG.append(("size", args))
    return _size(*args)


MODULE_LEVEL = {"hecho": hecho, "hzero": hzero, "herr": herr, "hval": hval, "htyp": htyp, "size": size}


def nested(name):
    impl = IMPL[name]

    def fn(*args):
        LOG.append((name, args))
        return impl(*args)
    fn.__name__ = name
    return fn


def lam(name):
    impl = IMPL[name]
    fn = lambda *args: (LOG.append((name, args)), impl(*args))[1]  # noqa: E731
    fn.__name__ = name
    return fn


class Obj:
    def __init__(self, name):
        self.__name__ = name
        self.impl = IMPL[name]

    def __call__(self, *args):
        LOG.append((self.__name__, args))
        return self.impl(*args)


def _methods(wrap, takes_self):
    """a module-level class whose attributes are named like the functions: bound methods, static methods, class methods"""
    ns = {}
    for name in IMPL:
        def make(name=name):
            if takes_self:
                def fn(self_or_cls, *args):
                    LOG.append((name, args))
                    return IMPL[name](*args)
            else:
                def fn(*args):
                    LOG.append((name, args))
                    return IMPL[name](*args)
            fn.__name__ = name
            return fn
        ns[name] = wrap(make())
    return ns


Host = type("Host", (), dict(_methods(lambda f: f, True), __module__=__name__))
for _n in IMPL:
    getattr(Host, _n).__qualname__ = "Host." + _n
StaticHost = type("StaticHost", (), dict(_methods(staticmethod, False), __module__=__name__))
for _n in IMPL:
    getattr(StaticHost, _n).__qualname__ = "StaticHost." + _n
ClassHost = type("ClassHost", (), dict(_methods(classmethod, True), __module__=__name__))
for _n in IMPL:
    getattr(ClassHost, _n).__func__.__qualname__ = "ClassHost." + _n
HOST = Host()

KINDS = {"module": lambda n: MODULE_LEVEL[n], "nested": nested, "lambda": lam, "object": Obj,
         "bound": lambda n: getattr(HOST, n), "static": lambda n: getattr(StaticHost, n), "classmethod": lambda n: getattr(ClassHost, n)}


def supply(kind, style, with_size):
    names = ["hecho", "hzero", "herr", "hval", "htyp"] + (["size"] if with_size else [])
    fns = [KINDS[kind](n) for n in names]
    return fns if style == "list" else dict(zip(names, fns))
