"""Host functions for C14, in every form an application can supply them.  Each records the arguments it receives."""
from celpy import celtypes as ct
from celpy.evaluation import CELEvalError

LOG = []


def _echo(*args):
    return ct.ListType(list(args))


def _zero(*args):
    return ct.IntType(7)


def _err(*args):
    return CELEvalError("host function says no")


def _val(*args):
    if len(args) == 2:
        raise ValueError            # no message, no arguments
    raise ValueError("host function raises ValueError")


def _typ(*args):
    if len(args) == 1:
        raise TypeError()
    raise TypeError("host function raises TypeError")


def _size(*args):
    return ct.IntType(-1)


IMPL = {"hecho": _echo, "hzero": _zero, "herr": _err, "hval": _val, "htyp": _typ, "size": _size}


# ---- module-level defs
def hecho(*args):
    LOG.append(("hecho", args))
    return _echo(*args)


def hzero(*args):
    LOG.append(("hzero", args))
    return _zero(*args)


def herr(*args):
    LOG.append(("herr", args))
    return _err(*args)


def hval(*args):
    LOG.append(("hval", args))
    return _val(*args)


def htyp(*args):
    LOG.append(("htyp", args))
    return _typ(*args)


def size(*args):
    LOG.append(("size", args))
    return _size(*args)


MODULE_LEVEL = {"hecho": hecho, "hzero": hzero, "herr": herr, "hval": hval, "htyp": htyp, "size": size}


def nested(name):
    impl = IMPL[name]

    def fn(*args):
        LOG.append((name, args))
        return impl(*args)
    fn.__name__ = name
    return fn


def lam(name):
    impl = IMPL[name]
    fn = lambda *args: (LOG.append((name, args)), impl(*args))[1]  # noqa: E731
    fn.__name__ = name
    return fn


class Obj:
    def __init__(self, name):
        self.__name__ = name
        self.impl = IMPL[name]

    def __call__(self, *args):
        LOG.append((self.__name__, args))
        return self.impl(*args)


KINDS = {"module": lambda n: MODULE_LEVEL[n], "nested": nested, "lambda": lam, "object": Obj}


def supply(kind, style, with_size):
    names = ["hecho", "hzero", "herr", "hval", "htyp"] + (["size"] if with_size else [])
    fns = [KINDS[kind](n) for n in names]
    return fns if style == "list" else dict(zip(names, fns))
