"""./check --selftest : demonstrates that the specification is BOUND to the code, in both directions.

  (a) code -> spec: 300 arithmetic events are recorded from the real implementation and accepted by Trace_C01; then the
      recorded result of ONE event is corrupted (its value changed by one) and TLC must reject exactly that event;
  (b) spec -> code: a seeded source change (seeded/C01/m1: int remainder through floating point) is applied to a scratch
      worktree of /repo and the C01 check must report a VIOLATION there, while it reports none on /repo.

Exit 0 when both demonstrations behave as described."""
from __future__ import annotations

import os
import random
import shutil
import subprocess
import sys
from pathlib import Path

ROOT = Path(__file__).resolve().parent.parent


def main(argv):
    from . import c01
    from .core import Ctx, write_ndjson, trace_verdict
    ok = True
    ctx = Ctx("SELFTEST", "quick", 1)
    rng = random.Random(7)
    evs = [e for e in c01.gen_random(rng, 400) if e[0] in ("int", "uint")][:300]
    lines = []
    for ev in evs:
        obs, _ = c01._observe_event(ev)
        ty, op, a, b = ev
        lines.append({"ty": ty, "op": op, "a": c01.enc_num(ty, a), "b": c01.enc_num(ty, b), "out": c01.enc_out(ty, obs["direct"])})

    def validate(ls, name):
        tf = ctx.work / (name + ".ndjson")
        write_ndjson(tf, ls)
        tr = ctx.tlc("Trace_C01", "INIT Init\nNEXT Next\nPOSTCONDITION Post\nCHECK_DEADLOCK FALSE\n", workers=1, env={"TRACE_FILE": str(tf)}, name=name)
        rej, consumed = trace_verdict(tr.stdout, len(ls))
        return [i for i, _ in rej]
    rej = validate(lines, "recorded")
    print("(a) %d recorded events validated by TLC against CelArith: rejected = %s" % (len(lines), rej))
    ok &= rej == []
    # corrupt one recorded value: the first event whose result is a number gets that number + 1
    k = next(i for i, ln in enumerate(lines) if ln["out"].get("t") in ("int", "uint") and ln["out"].get("m"))
    bad = [dict(ln) for ln in lines]
    m = list(bad[k]["out"]["m"])
    m[0] = m[0] + 1 if m[0] < 32767 else m[0] - 1
    bad[k] = dict(bad[k], out=dict(bad[k]["out"], m=m))
    rej = validate(bad, "corrupted")
    print("    the result recorded for event %d corrupted by one: rejected = %s" % (k + 1, rej))
    ok &= rej == [k + 1]
    shutil.rmtree(ctx.work, ignore_errors=True)
    # (b) a seeded change in a scratch worktree
    wt, out = Path("/tmp/selftest_wt"), Path("/tmp/selftest_out")
    subprocess.run(["git", "-C", "/repo", "worktree", "remove", "--force", str(wt)], capture_output=True)
    shutil.rmtree(wt, ignore_errors=True)
    try:
        subprocess.run(["git", "-C", "/repo", "worktree", "add", "-q", "--detach", str(wt), "HEAD"], check=True, capture_output=True)
        subprocess.run(["git", "-C", str(wt), "apply", str(ROOT / "seeded" / "C01" / "m1" / "patch.diff")], check=True, capture_output=True)
        p = subprocess.run([str(ROOT / "check"), "C01", "quick"], capture_output=True, text=True, cwd=str(ROOT),
                           env=dict(os.environ, VERIF_REPO=str(wt), VERIF_OUT=str(out)))
        nv = sum(1 for ln in p.stdout.splitlines() if ln.startswith("VIOLATION"))
        print("(b) seeded/C01/m1 applied to a scratch worktree: ./check C01 quick exits %d with %d VIOLATION lines" % (p.returncode, nv))
        ok &= p.returncode == 1 and nv > 0
    finally:
        subprocess.run(["git", "-C", "/repo", "worktree", "remove", "--force", str(wt)], capture_output=True)
        shutil.rmtree(wt, ignore_errors=True)
        shutil.rmtree(out, ignore_errors=True)
    print("selftest %s" % ("ok" if ok else "FAILED"))
    return 0 if ok else 1


if __name__ == "__main__":
    sys.exit(main(sys.argv[1:]))
