"""C10 type conversions round-trip and range-check.  Spec: CelConv.tla (through CelEval); model MC_C10."""
from __future__ import annotations

import math
import random

from . import celx, evalx
from .c09 import L
from .core import Ctx, read_dump, pmap

INV = "SPECIFICATION Spec\nINVARIANT RoundTrip\nINVARIANT LawsHold\nINVARIANT InRange\nINVARIANT StrictConversions\nINVARIANT TruncatesTowardZero\nCHECK_DEADLOCK FALSE\n"


def cv(f, a):
    return {"k": "call", "f": f, "args": [a]}


def _law(item):
    # bindings travel as abstract values: celpy objects must not be pickled into pool workers
    # (an unpicklable task argument makes multiprocessing.Pool.map wait forever)
    text, name, val = item
    bind = {name: celx.to_cel(val)}
    if val["t"] == "timestamp" and abs(val["v"]) < 250000000000 * 10**6:
        # the same instant carried in one of four zones: timestamp(string(t)) == t is about instants
        import datetime
        off = celx.TS_OFFSETS[(val["v"] // 10**6) % len(celx.TS_OFFSETS)]
        bind = {name: celx.ct.TimestampType((celx.EPOCH + datetime.timedelta(microseconds=val["v"])).astimezone(datetime.timezone(datetime.timedelta(minutes=off))))}
    out = {}
    for r in ("I", "C"):
        out[r] = celx.strip_py(celx.outcome_abs(celx.run(text, bind, r)))
    return out


def run(ctx: Ctx) -> int:
    q = ctx.quick
    r = ctx.tlc("MC_C10", INV, dump=True, name="conversions x boundary pools, one and two steps")
    states = [s for s in read_dump(r.dump) if s["prog"]["k"] != "lit"]
    items = [(s["prog"], [], s["exp"]) for s in states]
    evalx.replay_states(ctx, items)
    ctx.cov["replayed_states"] = len(items)
    ctx.cov["indefinite_states"] = sum(1 for s in states if s["exp"]["t"] == "indef")
    for it in items[:: max(1, len(items) // 5)][:5]:
        ctx.sample({"cel": celx.render_ast(it[0]), "expected": it[2]})
    rng = random.Random(ctx.seed)
    n = 600 if q else 60000
    # the round-trip laws the statement itself states, on random values of each source type (double text is symbolic in the spec)
    laws = []
    for _ in range(n):
        k = rng.choice(["double", "double", "int", "uint", "string", "ts", "dur"])
        if k == "double":
            d = rng.choice([math.ldexp(rng.randint(-2**53, 2**53), rng.randint(-1074, 960)), rng.random(), float(rng.randint(-10**6, 10**6)), 1e300, 5e-324, -0.0, 0.1, 1 / 3])
            laws.append(("double(string(d)) == d", "d", {"t": "double", "v": d}))
        elif k == "int":
            laws.append(("int(string(i)) == i", "i", {"t": "int", "v": rng.choice([rng.randint(-2**63, 2**63 - 1), rng.randint(-9, 9)])}))
        elif k == "uint":
            laws.append(("uint(string(u)) == u", "u", {"t": "uint", "v": rng.choice([rng.randint(0, 2**64 - 1), rng.randint(0, 9)])}))
        elif k == "string":
            s = "".join(chr(rng.choice([rng.randint(32, 126), rng.randint(0xa0, 0x7ff), rng.randint(0x800, 0xd7ff), rng.randint(0x10000, 0x10ffff)])) for _ in range(rng.randint(0, 8)))
            laws.append(("string(bytes(s)) == s", "s", {"t": "string", "v": s}))
        elif k == "ts":
            us = rng.randint(-62135596800, 253402300799) * 10**6
            laws.append(("timestamp(string(t)) == t", "t", {"t": "timestamp", "v": us}))
        else:
            us = rng.randint(-315576000000, 315576000000) * 10**6
            laws.append(("duration(string(d)) == d", "d", {"t": "duration", "v": us}))
    for (text, name, val), obs in zip(laws, pmap(_law, laws)):
        for rr, got in obs.items():
            if got != {"t": "bool", "v": True}:
                ctx.disagree("law %s fails (%s) runner=%s" % (text, got["t"] if got["t"] != "bool" else "false", rr), {"cel": text, "binding": celx.enc(val), "observed": got, "runner": rr})
    ctx.cov["evaluations"] += 2 * len(laws)
    ctx.cov["round_trip_law_cases"] = len(laws)
    # code -> spec: random conversion chains judged by the specification
    progs = []
    for _ in range(n):
        k = rng.choice(["int", "uint", "double", "string", "bytes", "ts", "dur", "tstext", "durtext"])
        if k == "int":
            v = L("int", rng.choice([rng.randint(-2**63, 2**63 - 1), rng.randint(-9, 9)]))
        elif k == "uint":
            v = L("uint", rng.choice([rng.randint(0, 2**64 - 1), rng.randint(0, 9)]))
        elif k == "double":
            v = L("double", rng.choice([math.ldexp(rng.randint(-2**53, 2**53), rng.randint(-60, 12)), float(rng.randint(-2**40, 2**40)) + 0.5, 9.3e18, 1.9e19, -9.3e18]))
        elif k == "string":
            v = L("string", rng.choice([str(rng.randint(-2**64, 2**64)), "".join(chr(rng.randint(32, 0x2fff)) for _ in range(3)), "%d" % rng.randint(0, 99), "-%d" % rng.randint(0, 2**63 + 5)]))
        elif k == "bytes":
            v = L("bytes", bytes(rng.choice([0x41, 0xc3, 0xa9, 0xe2, 0x82, 0xac, 0xf0, 0x9f, 0x90, 0xb1, 0xff, 0x80]) for _ in range(rng.randint(0, 5))))
        elif k == "ts":
            v = L("timestamp", rng.randint(-62135596800, 253402300799) * 10**6 + rng.choice([0, 0, 500000, 1]))
        elif k == "dur":
            v = L("duration", rng.randint(-315576000000, 315576000000) * 10**6 + rng.choice([0, 0, 250000]))
        elif k == "tstext":
            us = rng.randint(-62135596800, 253402300799) * 10**6
            txt = celx.rfc3339(us)
            if rng.random() < 0.4:
                off = rng.choice([-840, -60, 1, 330, 840])
                txt = celx.rfc3339(us + off * 60 * 10**6)[:-1] + "%s%02d:%02d" % ("+" if off >= 0 else "-", abs(off) // 60, abs(off) % 60)
            v = L("string", txt)
        else:
            parts = []
            for u in rng.sample(["h", "m", "s", "ms", "us"], rng.randint(1, 3)):
                parts.append("%d%s%s" % (rng.randint(0, 999), rng.choice(["", ".5", ".25"]) if u != "us" else "", u))
            v = L("string", rng.choice(["", "-", "+"]) + "".join(parts))
        f = rng.choice(["int", "uint", "double", "string", "bytes", "timestamp", "duration"])
        if k == "tstext":
            f = "timestamp"        # (string(timestamp(text)) keeps the offset the text was written with: a spelling, not a value)
        p = cv(f, v)
        if rng.random() < 0.5:
            p = cv(rng.choice(["int", "uint", "double", "bytes", "timestamp", "duration"] + ([] if k == "tstext" else ["string"])), p)
        progs.append((p, []))
    evalx.validate_trace(ctx, progs)
    ctx.assumptions += ["string(double) and double(string) are symbolic in the specification: only double(string(d)) == d is checked, inside CEL",
                        "double(int) beyond 53 bits and duration texts that are not a whole number of microseconds are indefinite"]
    return ctx.finish(rule="TLC applies each of the 8 conversion functions, and 19 two-step compositions, to every value of boundary pools of every source type "
                           "(int64/uint64 limits, doubles around 2^63 and 2^64, invalid UTF-8, RFC 3339 texts in and out of range, duration texts); the "
                           "round-trip equations are model invariants; the implementation must return the specified value or error; random values go "
                           "through the laws and through Trace_Eval. distinct = distinct programs",
                      extra={"distinct_nontrivial": len(items) + len(laws) + len(progs)})


def replay(path):
    import json
    d = json.load(open(path))
    if "prog" in d["case"]:
        return evalx.replay_file(path)
    print(d["case"])
    return 1
