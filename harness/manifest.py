"""Writes MANIFEST.json from the table below (run: /venv/bin/python -m harness.manifest)."""
import json
from pathlib import Path

ROOT = Path(__file__).resolve().parent.parent
ALL = ["C%02d" % i for i in range(1, 21)]
BASE = ("cd /repo && /venv/bin/python -m pytest -ra -q -p no:cacheprovider --timeout=900 "
        "--continue-on-collection-errors")

# property -> (technique, level text, level note, design ref)
CHECKS = {
    "C01": ("TLA+ spec CelArith (BigInt limb arithmetic) checked by TLC; every model state replayed into celtypes "
            "and both runners; random 64-bit events validated by TLC trace spec Trace_C01",
            "TLC enumerates every (type, operator, a, b) over the int64/uint64 boundary pool united with a small box and "
            "a pool of IEEE-754 classes; model invariants (range-or-error, error-iff-not-fits, division law, native "
            "cross-check at small width) hold on the specification, and each state is replayed through six "
            "implementation paths; the reverse direction validates randomly drawn 64-bit operand events with TLC.",
            "Trusted: TLC, the BigInt module (self-checked against native integers at base 4), the Python projection "
            "of results. CPython's float arithmetic is judged against the specification's own round-to-nearest-even.", "5/C01"),
    "C02": ("TLA+ spec CelLogic (outcome-class algebra of && || ! ?: all exists) checked by TLC; every generated nesting "
            "replayed into both runners and celtypes.logical_*; random deep programs validated by TLC trace spec Trace_C02",
            "TLC enumerates every linear nesting of the logical operators over the outcome classes {true, false, error, two "
            "non-booleans} up to the size bound and every element-outcome list for all()/exists(), checks commutativity, "
            "duality, deciding-operand absorption and laziness on the specification, and each state is rendered to CEL with "
            "a rotating palette of failing sub-expressions and evaluated under both runners.",
            "Trusted: TLC, the renderer/classifier of the harness. Outcomes the statement leaves open are marked indefinite "
            "in the spec and never compared.", "5/C02"),
    "C06": ("TLA+ spec CelSyntax (independent precedence-climbing Parse, minimal-parenthesis Render, FullParen) checked by TLC "
            "(Parse(Render(t)) = t); every generated tree's token sequences parsed by the library under both tree classes and "
            "round-tripped through tree_dump; corpus texts validated by TLC trace spec Trace_C06",
            "TLC grows syntax trees by wrapping in every operand position of every construct (chains to depth 2-3, all operator "
            "pairs/triples) plus all binary combinations of depth-1 trees; the round-trip laws hold on the specification; the "
            "library must build exactly the specified tree from Render(t) and Full(t) (separator variants) and again after "
            "tree_dump; in the other direction every conformance-corpus text the library parses must get the tree the "
            "specification's parser builds from the same tokens. Numeric literals as receivers ((1).f) and the literal words true / false / null in every name position are part of the texts.",
            "Trusted: TLC, the lark-tree normaliser and the token renderer of the harness. Lexical maximal munch (signs glued "
            "to numbers, 'in' glued to identifiers) is out of model.", "5/C06"),
    "C08": ("TLA+ spec CelValue (Eq, Lt, six relations per type) checked by TLC for the coherence laws; every pair of every "
            "same-type pool replayed (literals and bound variables, both runners); random values validated by Trace_C08",
            "TLC enumerates all ordered pairs of 14 same-type value pools (boundary integers, signed zeros and infinities, "
            "non-BMP strings, timestamps, durations, nested lists and permuted maps) and checks reflexivity, symmetry, negation, "
            "trichotomy, converse, transitivity and container congruence on the specification; the implementation must return "
            "the specified truth value for each of the six relations. Maps and lists holding null (a missing key is not a key holding null); timestamps written with negative offsets that have a minutes part.",
            "Trusted: TLC, BigInt, the literal renderer (own calendar arithmetic for timestamp spellings). NaN excluded.", "5/C08"),
    "C07": ("TLA+ spec CelLiteral (character-level decoder for the 16 string/bytes styles, integer and float literal denotation "
            "over BigInt) checked by TLC against the item-level denotation; every generated literal evaluated under both runners; "
            "random strings / byte strings / integers encoded by the harness and judged by the spec decoder in Trace_C07",
            "TLC enumerates sequences of body items (plain characters incl. quotes, newline, non-BMP; every escape form) in all 16 "
            "quoting styles, and every spelling (sign, radix, leading zeros, suffix, digit case) of the int64/uint64 boundary pool "
            "plus float spellings; the model invariant ties the character-level decoder to the denotation, and the implementation "
            "must produce the denoted code points / octets / number (or an error for out-of-range integers). Literals are also replayed repeated to 600 / 5000 characters (invariant Homomorphic), and with plain text that reads like the tail of an escape after an escaped backslash.",
            "Trusted: TLC, BigInt. Floats are compared only when the spelled decimal is exactly representable.", "5/C07"),
    "C09": ("TLA+ reference evaluator CelEval (index, lookup, in, size, concatenation, map construction, has, string functions, the "
            "five macros) and reference regular-expression matcher CelRegex (parser + end-position matcher) checked by TLC for the laws of the "
            "statement; every template program and every pattern x text replayed under both runners; random programs validated by Trace_Eval",
            "TLC instantiates program templates over value pools (every boundary index from MIN to MAX, present / missing / wrong-type "
            "keys, duplicate keys, non-BMP strings, failing predicates, nested macros), checks map-keeps-size, filter-is-subsequence, "
            "exists_one-counts, in-iff-exists, concat-prefix and bad-index-is-error on the specification, and the implementation must "
            "return the specified value or error for each program. For matches(), TLC enumerates EVERY pattern over the alphabet "
            "a b . * + ? | ( ) [ ] ^ $ \\ - up to 3 (thorough: 4) symbols against ten texts with the reference matcher (laws: a literal pattern "
            "is containment, anchors are prefix / suffix / equality, alternation is union, validity is text-independent); the library must "
            "return the same boolean, and an evaluation error for each invalid pattern -- also inside a list literal and under ||.",
            "Trusted: TLC, BigInt, the AST renderer. Regex syntax outside the fragment (counted repetition, (?..) groups, POSIX classes, "
            "other escapes) is 'unk' in the spec and not compared; heterogeneous containers are indefinite.", "5/C09"),
    "C13": ("TLA+ reference evaluator CelEval with type tags (TypeName(Eval(e))) checked by TLC; every typed root expression replayed: "
            "value, Python class of the result (isinstance of the celtypes class) and the twelve answers of type(e) == T, both runners",
            "TLC instantiates every operator, built-in predicate, macro and literal with operands of each of the twelve CEL types, "
            "each also nested under a conditional and a list index; arithmetic-keeps-type and predicates-are-bool are model "
            "invariants; the implementation must hand back an instance of the celtypes class of the specified type and answer "
            "type(e) == T with true exactly for the specified T.",
            "Trusted: TLC, the projection of Python results. Conversion functions are covered under C10.", "5/C13"),
    "C03": ("TLA+ trace spec Trace_C03 (Evaluate is one runner-independent action; SameOutcome relation) judging event pairs recorded "
            "from both runner classes on the state spaces of the C02/C04/C07/C09/C13 models, the conformance corpus and random programs",
            "Programs are the union of every generator model's state space (TLC), all conformance-corpus expressions with seeded "
            "mutations and error-absorbing wrappers, and random nested programs; each is built and evaluated under both runner "
            "classes and TLC decides SameOutcome (equal value of the same CEL type, or an error in both; a failure in program() or a "
            "Python exception on one side only is a violation) for every pair.",
            "Trusted: TLC, the projection of results to the abstract value universe. celpy extensions (min, reduce) and protobuf "
            "message construction are out of scope.", "5/C03"),
    "C04": ("TLA+ models MC_C04 (type-agnostic programs over 14 value kinds; all token sequences judged by CelSyntax!Parse) and the total "
            "evaluator CelEval checked by TLC; every state replayed under both runners; compile/evaluate events validated by Trace_C04",
            "TLC enumerates every operator, member form, function, method and macro applied to every value kind (ill-typed included, "
            "wrong arities included), every literal text of the C07 model (well-formed or not) and every token sequence up to the "
            "bound; the evaluator of the specification is total and its state machine has no 'Python exception' outcome, so the "
            "implementation may only return a CEL value or raise CELEvalError / a located CELParseError, renderable with str() and "
            "repr(); accept/reject must agree with the grammar. A message value bound as a variable goes through 54 member / operator / macro / conversion forms; zone arguments include names that are directories or data files of the tz database.",
            "Trusted: TLC, the outcome classifier. Lexical maximal munch is out of model.", "5/C04"),
    "C12": ("TLA+ spec CelNames (longest-prefix resolution over package levels) and CelEval (environment stack for macro variables) checked "
            "by TLC; every binding configuration x package x reference and every macro nesting replayed under both runners; random "
            "macro nestings validated by Trace_Eval",
            "TLC enumerates every configuration of bindings over the path a.b.c (each prefix unbound / scalar / nested map, at the root and "
            "under the package prefixes p and p.q, every binding tagged with a distinct integer) x package x reference, and nestings of "
            "macros with colliding and distinct variable names plus outer variables; the implementation must return the tagged value "
            "the specification resolves to, with and without declarations.",
            "Trusted: TLC, the harness's construction of dotted bindings. References that stop at a bare namespace prefix are indefinite.", "5/C12"),
    "C14": ("TLA+ reference evaluator CelEval with specified host functions (HostApply) and expected call log (Calls) checked by TLC; every "
            "call-shape program replayed in 28 configurations (list/dict x module def/nested def/lambda/callable object/bound, static and class method x both runners)",
            "TLC enumerates call shapes (global and method form, 0-3 arguments, nested calls, calls under every error-absorbing operator "
            "and inside macro bodies, a supplied function shadowing size, unbound names); the specification's outcome and call log depend "
            "on the shape only, so uniformity is checked by replaying each state in all 28 ways of supplying the functions (the override of size also at call sites inside macro bodies) and "
            "comparing outcome and the multiset of calls received; an override must not leak into a later program.",
            "Trusted: TLC, the recording host functions of the harness.", "5/C14"),
    "C05": ("TLA+ state machine CelApi (NewEnv / Program / Evaluate; Outcome is a function of declarations, expression and bindings) "
            "model-checked by TLC (action property HistoryFree over all histories to depth 4); TLC-generated histories (exhaustive short, "
            "simulated long, pairwise binding sequences) replayed one per forked process; random histories validated by Trace_C05",
            "Every history of API calls up to depth 4 (2 runner classes x 4 declaration kinds x 10 expressions -- four of them programs built with / "
            "without application functions, one overriding a built-in -- x 7 bindings) is a "
            "state of the model and HistoryFree is checked on each step; behaviours of that machine are replayed into the library, each "
            "in a process forked from a parent that only imported the library, and every Evaluate is compared with the specification's "
            "Outcome and with the same evaluation performed alone (cross-checked against fresh interpreters); the caller's bindings are "
            "compared before and after; recorded random histories are accepted or rejected by the same state machine in TLC. Includes 'a failed call, then a call without bindings' for an expression that is a value without its variable (has() guarded).",
            "Trusted: TLC, os.fork isolation. fork() is slow in this sandbox, so the number of replayed histories is budgeted.", "5/C05"),
    "C10": ("TLA+ spec CelConv (decimal text over BigInt, truncation of exact dyadics, UTF-8 encode/decode, RFC 3339 and duration text) "
            "checked by TLC for the round-trip equations; every conversion x boundary value, one and two steps, replayed under both "
            "runners; random values through the laws and through Trace_Eval",
            "TLC applies each conversion function and 18 two-step compositions to every value of boundary pools (int64/uint64 limits, "
            "doubles around 2^63 and 2^64, NaN/inf, invalid UTF-8, timestamps at years 1/999/1000/9999, durations at the range ends, "
            "RFC 3339 and duration texts in and out of range); the round trips and truncation toward zero are model invariants and "
            "the implementation must return the specified value or error. Timestamps and durations with a fraction of a second are part of the round trips.",
            "Trusted: TLC, BigInt. string(double)/double(string) are symbolic (checked as double(string(d)) == d inside CEL).", "5/C10"),
    "C11": ("TLA+ spec CelTime (proleptic Gregorian calendar, instants as BigInt microseconds, accessors under offsets, duration text) "
            "checked by TLC (calendar bijection, weekday cycle, add/sub laws); boundary instants x zones x accessors and boundary "
            "arithmetic replayed under both runners; random instants / offsets / durations validated by Trace_Eval",
            "TLC enumerates every month boundary +-1 us / +-1 s of a set of years x fixed offsets and a hand-encoded zone table x the "
            "ten accessors, all arithmetic forms over boundary instants and durations (with range errors), and duration texts "
            "assembled from components; calendar invariants are checked over a sweep of day numbers; no date library is involved in "
            "any expected value. Exact daylight-saving rules (New York, Paris, Sydney, 2008-2037) with instants around the twelve transitions of 2021 and 2024; duration texts beyond 2^53 microseconds with a fraction.",
            "Trusted: TLC, BigInt. IANA rules outside the hand-encoded table and inexact duration texts are out of model.", "5/C11"),
    "C15": ("TLA+ spec CelJson (ToCel, Encode, Navigate, base64 / RFC 3339 / seconds text) checked by TLC (Encode(ToCel(d)) = d, paths commute); "
            "every model document and special value replayed through json_to_cel, CELJSONDecoder, CELJSONEncoder and CEL navigation under "
            "both runners; random documents validated by Trace_C15",
            "TLC enumerates JSON documents to depth 2 over scalar pools (booleans next to 0 / 1, int64 limits, -0.0, extreme exponents, "
            "empty and non-ASCII strings / keys) and CEL timestamps, durations and bytes; the library must produce the CEL value the "
            "specification maps the document to (type tags included), serialise it back to an equal document (type-strict comparison), "
            "and reach with .field / [\"key\"] / [i] exactly the element the path reaches in the document. Timestamps and durations with a fraction of a second must encode as text that denotes them.",
            "Trusted: TLC, Python's json parser for number text. NaN / infinities are not JSON and are not generated.", "5/C15"),
    "C16": ("TLA+ spec CelThreads (threads = RECORDED per-line read/write programs over process-wide cells; Step(t) atomic per line) "
            "checked by TLC for NoInterference over ALL interleavings; the TLC witness and every single-preemption schedule at the recorded "
            "shared accesses replayed into real threads by a deterministic line-level scheduler, results compared with each job alone",
            "Each thread body (own Environment, compile, program, bindings, one evaluation -- the whole lifecycle, and evaluate() alone; pairs of the "
            "same and of different runner classes; macro / has / filter / string / matches programs) is run alone, after the other job, under a "
            "tracer that records per executed library line the module- and class-namespace names (and directly bound containers / library "
            "objects) it reads and writes; TLC explores every interleaving of the two recorded programs; a settrace scheduler then forces the "
            "witness and the single-preemption schedules (all lines touching shared cells +-1 and a stride sample of all lines; two "
            "preemptions, all job pairs and a free-running 4-thread stress in the thorough tier) and each thread's result must equal its result alone.",
            "Trusted: TLC, sys.settrace line granularity (interleavings inside one Python line and inside C code -- lark, re2 -- are reached only by "
            "the stress run). With nothing shared the recorded model has one state: it grows exactly when a change introduces shared state.", "5/C16"),
    "C17": ("TLA+ spec C7nLib (set predicates, normalize, a recursive glob matcher, IPv4 containment on masked octets, version order, tag "
            "lookup, message:action@date split, ARN split, the filter-context state machine) checked by TLC; every case called directly "
            "and through CEL with FUNCTIONS bound; every context history replayed through C7N_Interpreted_Runner",
            "TLC enumerates per helper an exhaustive small input space (lists over a 3-element alphabet to length 3, glob texts / patterns "
            "over { a B * ? [ ] ! }, every prefix length 0..32 against addresses differing in single bits, versions of 1-3 components, "
            "tag lists with repeated keys and values containing ':' and '@', the three ARN shapes) and all histories of up to 4 "
            "succeeding / failing / raising evaluations; laws (symmetry, self-containment, literal patterns) are model invariants. Lists of 15-20 members (disjoint, overlapping in one member, equal) are replayed next to each other in one process.",
            "Trusted: TLC, the recording probe function. Glob ranges, IPv6 and pre-release versions are not modelled.", "5/C17"),
    "C18": ("TLA+ spec C7nXlate (Custodian combinator truth, truth-table contract over the atoms of the emitted text parsed by "
            "CelSyntax!Parse) checked by TLC on a reference translation; the real translator's output for every model tree is "
            "tokenised and accepted or rejected by TLC (Trace_C18); the library also evaluates it under all clause assignments",
            "TLC enumerates filter trees (list / and / or / not, 1-3 children, singleton connectives, depth 2-3) x assignments of "
            "top-level operator classes to the clauses (atom, !x, x && y, x || y, c ? x : y); for each the emitted CEL "
            "(logical_connector and c7n_rewrite from YAML, real clause families: value, marked-for-op, offhour) must parse with the "
            "specification's grammar and have the tree's truth table under every assignment to its atoms.",
            "Trusted: TLC, the harness tokenizer. A clause with || at its top level is supplied by patching type_value_rewrite (no "
            "shipped rewriter emits one).", "5/C18"),
    "C19": ("TLA+ spec C7nValue (op table as relations, value_type transforms, literal and duration-literal contracts over CelLiteral / "
            "CelTime, CelSyntax!Parse for emitted text) checked by TLC; every case translated by the real rewriter and evaluated by the "
            "real evaluator; every emitted literal / duration / table entry judged by TLC (Trace_C19)",
            "TLC enumerates ops x value kinds x value_type transforms x resources on both sides of each comparison boundary with the "
            "decision the named relation gives, policy strings over quotes / backslashes / control / non-ASCII characters, day and second "
            "counts, and the harness discovers every (rewriter, resource type) table entry from the translator's source; the emitted "
            "clause must give the specified match decision, each literal must decode to the original string, each duration literal "
            "must denote the count, and every emitted text must parse. Every clause's decision is also evaluated negated and joined with another operand, as not / and / or emit it; policy strings in which a backslash is followed by what would be a CEL escape.",
            "Trusted: TLC, the harness tokenizer. Duration literals are read in the translator's dialect (unit d).", "5/C19"),
    "C20": ("TLA+ spec CelCli (ProcessDoc steps: line_k = JSON of Eval(expr, doc_k), status = worst per-document status; -n / -b / -s / --arg) "
            "checked by TLC (per-document independence, worst status); every state run through celpy.__main__.main and a sample through "
            "`python -m celpy`; random streams validated by Trace_C20",
            "TLC enumerates expressions of the bool / int / string / list fragment x every stream of up to 3-4 documents over document kinds "
            "(matching, non-matching, erroring, another JSON shape, not JSON) x -b, and -n runs with typed --arg bindings; stdout is "
            "compared after JSON parsing with the specified documents, exit status with the specified status (0 / 1 / 2, worst status, 3 "
            "for malformed JSON); -d / -p spellings and -s must not change the result; syntax errors must exit 1 with a located message.",
            "Trusted: TLC, the stream capture of the harness. A non-JSON line prints nothing (adopted convention); the per-document "
            "status of a non-boolean under -b in NDJSON mode is not fixed by the statement.", "5/C20"),
}

# what the seeded-change rounds added to each check's exploration (appended to the level text)
EXTRA = {
    "C01": " Also: double negation (- - x, each negation checked), the operands spelled in hexadecimal, and arbitrary finite doubles (53-bit mantissas, "
           "subnormal and near-overflow exponents) judged by the specification's round-to-nearest-even (RoundNE / RoundQuot).",
    "C02": " The error leaves rotate through 21 kinds of failing sub-expression, including failures raised inside pendulum / codecs.",
    "C03": " Number-literal spellings of MC_C07N, hostile identifier spellings and message literals are part of the program set; a sample of the programs "
           "with bindings is evaluated a second time on the same program object with no bindings.",
    "C04": " Leaves include the int / uint / timestamp / duration boundary values; every number spelling of MC_C07N, identifiers that are Python keywords or "
           "attribute names of the implementation's objects, message literals (duplicate / missing / failing fields) and the extension macros on unordered "
           "lists are evaluated as well.",
    "C06": " Aggregates carry 2-3 entries (order is part of the tree), leaves include identifiers that begin with true / false / null / in and string "
           "literals differing only in inner white space, and a comment may end the text.",
    "C10": " A conversion, type(), size() or dyn() of an operand that fails -- directly or as the unabsorbed outcome of || && ?: ! -- must be that failure.",
    "C12": " Identifier spellings that mean something to Python or to the implementation's objects must behave like any other name (SpellingIrrelevant); "
           "bindings are listed in three different orders; a declared name bound to null is null.",
    "C13": " Macro ranges cover no / one / several / only matching elements and maps; the double pool holds zero (division by it gives an infinity of "
           "class double); uint literals are spelled with u and U.",
    "C14": " Calls are strict (a failing argument is the call's outcome and the function is not invoked); the same call written or reached twice with "
           "equal arguments must arrive twice.",
    "C18": " Clause classes include a text that begins with ! but is a conditional (offhour with skip-days) and one that begins with ( and ends with ) but "
           "is a conjunction of two groups (network-location).",
    "C19": " present / absent are specified on attribute states (missing, null, value) for plain keys, nested keys and tags; emitted clauses and literals are "
           "evaluated under both runner classes.",
    "C20": " Under -b a non-boolean or failing document admits status 0 or 2 (both readings of the statement) and nothing else; documents hold U+2028 / "
           "U+0085 / non-ASCII characters, escaped and raw.",
}
NOT_YET = "check not built yet in this phase (planned per DESIGN.md section 5)"


def main():
    checks = []
    for pid, (tech, text, note, ref) in sorted(CHECKS.items()):
        checks.append({
            "property_id": pid,
            "quick_cmd": "./check %s quick" % pid,
            "thorough_cmd": "./check %s thorough" % pid,
            "evidence_file": "/verif/evidence/%s.json" % pid,
            "replay_cmd_template": "./check %s --replay {path}" % pid,
            "engine": "tlc+replay",
            "level_claimed": {"category": "model_checking", "text": text + EXTRA.get(pid, ""), "design_ref": "DESIGN.md section " + ref},
            "level_note": note,
            "technique": tech,
        })
    na_file = ROOT / "not_applicable.json"
    na_reasons = json.loads(na_file.read_text()) if na_file.exists() else {}
    m = {
        "version": 1,
        "setup_cmd": "./check --setup",
        "hooks": {"guard": "CELPY_VERIF", "enable": "no source hooks: checks import /repo/src directly (env CELPY_VERIF=1 is set by the harness but nothing in /repo reads it)",
                  "baseline_off_cmd": BASE, "source_commits": [], "add_only": True},
        "engines": [{"name": "tlc+replay", "path": "/verif/check", "serves_properties": sorted(CHECKS),
                     "kind_free_text": "TLA+ specifications under /verif/specs model-checked with TLC 1.8; states/behaviours replayed into celpy, "
                                       "and events recorded from celpy validated by TLC trace specifications"}],
        "checks": checks,
        "not_applicable": [{"property_id": p, "reason": na_reasons.get(p, NOT_YET)} for p in ALL if p not in CHECKS],
        "notes": "See DESIGN.md. Known findings and fixed defects: known_findings.json.",
    }
    (ROOT / "MANIFEST.json").write_text(json.dumps(m, indent=1) + "\n")
    print("MANIFEST.json: %d checks, %d not_applicable" % (len(checks), len(m["not_applicable"])))


if __name__ == "__main__":
    main()
