"""Harness core: TLA+ value reader, TLC launcher, evidence, known findings, run context.

Everything a per-property module needs to
  * run TLC on a spec/config (exhaustive, dump, simulate, trace validation),
  * read states out of TLC's dump (TLA+ value syntax -> Python),
  * report disagreements (violation vs. known finding) and write evidence.
"""
from __future__ import annotations

import json
import os
import re
import shutil
import subprocess
import sys
import time
from pathlib import Path

ROOT = Path(__file__).resolve().parent.parent
# the tree under test (default /repo) and where run output goes (default /verif): overridable so that seeded changes can be
# evaluated in scratch worktrees, in parallel, without touching /repo
REPO = os.environ.get("VERIF_REPO", "/repo")
OUT = Path(os.environ.get("VERIF_OUT", str(ROOT)))
SPECS = ROOT / "specs"
WORK = OUT / ".work"
EVID = OUT / "evidence"
REPLAYS = OUT / "replays"
FINDINGS = ROOT / "known_findings.json"
JAR = "/opt/veriftools/tla/tla2tools.jar:/opt/veriftools/tla/CommunityModules-deps.jar"
NCPU = min(16, os.cpu_count() or 4)


class MachineryError(Exception):
    """The check could not establish a verdict (exit 2, never 1)."""


# --------------------------------------------------------------------------
# TLA+ value syntax -> Python  (records -> dict, tuples/sets -> list, functions -> dict)
# --------------------------------------------------------------------------
_TOK = re.compile(
    r'"(?:[^"\\]|\\.)*"|<<|>>|\|->|:>|@@|[\[\]{}(),]|-?\d+|TRUE|FALSE|[A-Za-z_][A-Za-z0-9_]*'
)


def _to_json_text(src: str) -> str:
    """Translate one TLA+ value into JSON text (token by token)."""
    out = []
    toks = _TOK.findall(src)
    n = len(toks)
    stack = []  # kinds of open brackets: 'rec','seq','set','fun'
    i = 0
    while i < n:
        t = toks[i]
        if t == "<<":
            out.append("["); stack.append("seq")
        elif t == ">>":
            out.append("]"); stack.pop()
        elif t == "[":
            out.append("{"); stack.append("rec")
        elif t == "]":
            out.append("}"); stack.pop()
        elif t == "{":
            out.append("["); stack.append("set")
        elif t == "}":
            out.append("]"); stack.pop()
        elif t == "(":
            out.append("{"); stack.append("fun")
        elif t == ")":
            out.append("}"); stack.pop()
        elif t == "|->":
            out.append(":")
        elif t == ":>":
            out.append(":")
        elif t == "@@":
            out.append(",")
        elif t == ",":
            out.append(",")
        elif t == "TRUE":
            out.append("true")
        elif t == "FALSE":
            out.append("false")
        elif t[0] == '"':
            out.append(t)
        elif t[0].isdigit() or t[0] == "-":
            # function keys must be strings in JSON
            if stack and stack[-1] == "fun" and i + 1 < n and toks[i + 1] == ":>":
                out.append('"%s"' % t)
            else:
                out.append(t)
        else:  # identifier: a record field name or a model value
            out.append('"%s"' % t)
        i += 1
    return "".join(out)


def parse_tla(src: str):
    return json.loads(_to_json_text(src))


_STATE_SPLIT = re.compile(r"^State \d+:\n", re.M)
_VAR_SPLIT = re.compile(r"^/\\ (\w+) = ", re.M)


def _parse_chunk(chunk: str):
    parts = _VAR_SPLIT.split(chunk)
    st = {}
    for k in range(1, len(parts), 2):
        st[parts[k]] = json.loads(_to_json_text(parts[k + 1]))
    return st


def read_dump(path) -> list:
    """All states of a `tlc -dump` file as dicts var -> python value."""
    text = Path(path).read_text()
    chunks = [c for c in _STATE_SPLIT.split(text) if c.strip()]
    if len(chunks) > 20000:
        import multiprocessing as mp
        with mp.Pool(NCPU) as pool:
            return pool.map(_parse_chunk, chunks, chunksize=2000)
    return [_parse_chunk(c) for c in chunks]


# --------------------------------------------------------------------------
# TLC
# --------------------------------------------------------------------------
_TLC_SEQ = __import__("itertools").count()


class TLCResult:
    def __init__(self):
        self.ok = False
        self.generated = 0
        self.distinct = 0
        self.depth = 0
        self.stdout = ""
        self.dump = None
        self.violated = None
        self.wall = 0.0
        self.printed = []  # values printed by PrintT (raw text lines)
        self.coverage = {}


def run_tlc(module: str, cfg: str, workdir: Path, *, dump=False, workers=None, simulate=None,
            env=None, timeout=1700, depth=None, seed=None, coverage=False, extra=()) -> TLCResult:
    """Run TLC on specs/<module>.tla with the given cfg text.  Exhaustive BFS unless simulate="num=N"."""
    workdir = Path(workdir)
    workdir.mkdir(parents=True, exist_ok=True)
    tag = "%s_%d_%d" % (module, int(time.time() * 1000) % 10**9, next(_TLC_SEQ))      # unique also across concurrent threads
    cfgp = workdir / (tag + ".cfg")
    cfgp.write_text(cfg)
    md = workdir / (tag + ".md")
    cmd = ["java", "-Xss512m", "-XX:+UseParallelGC", "-Xmx8g", "-cp", JAR, "tlc2.TLC",
           "-workers", str(workers or NCPU), "-metadir", str(md), "-noGenerateSpecTE",
           "-config", str(cfgp)]
    dumpp = None
    if dump:
        dumpp = workdir / (tag + ".states")
        cmd += ["-dump", str(dumpp)]
    if simulate:
        cmd += ["-simulate", simulate]
        if depth:
            cmd += ["-depth", str(depth)]
    if seed is not None:
        cmd += ["-seed", str(seed)]
    if coverage:
        cmd += ["-coverage", "1"]
    cmd += list(extra)
    cmd += [str(SPECS / (module + ".tla"))]
    e = dict(os.environ)
    e.pop("JAVA_TOOL_OPTIONS", None)
    if env:
        e.update({k: str(v) for k, v in env.items()})
    t0 = time.time()
    try:
        p = subprocess.run(cmd, cwd=str(SPECS), env=e, capture_output=True, text=True, timeout=timeout)
    except subprocess.TimeoutExpired as ex:
        subprocess.run(["pkill", "-f", str(md)], check=False)
        raise MachineryError("TLC timeout on %s after %ss" % (module, timeout)) from ex
    finally:
        shutil.rmtree(md, ignore_errors=True)
    r = TLCResult()
    r.wall = time.time() - t0
    r.stdout = p.stdout + p.stderr
    m = re.search(r"(\d[\d,]*) states generated, (\d[\d,]*) distinct states found", r.stdout)
    if m:
        r.generated = int(m.group(1).replace(",", ""))
        r.distinct = int(m.group(2).replace(",", ""))
    m = re.search(r"depth of the complete state graph search is (\d+)", r.stdout)
    if m:
        r.depth = int(m.group(1))
    m = re.search(r"Invariant (\w+) is violated", r.stdout)
    if m:
        r.violated = m.group(1)
    m2 = re.search(r"(Action property|Temporal properties|property) (\w+)? ?(is|were) violated", r.stdout)
    if m2 and not r.violated:
        r.violated = m2.group(2) or "property"
    if "Error:" in r.stdout and not r.violated:
        if "violated" in r.stdout:
            r.violated = "unknown"
    r.ok = ("Model checking completed. No error has been found." in r.stdout) or (
        simulate is not None and p.returncode == 0 and "Error:" not in r.stdout)
    if simulate is not None and not m:
        mm = re.search(r"(\d[\d,]*) states checked", r.stdout)
        if mm:
            r.generated = r.distinct = int(mm.group(1).replace(",", ""))
    if dump and dumpp is not None:
        dp = Path(str(dumpp) + ".dump")
        r.dump = dp if dp.exists() else None
    if not r.ok and not r.violated:
        tail = "\n".join(r.stdout.splitlines()[-40:])
        raise MachineryError("TLC failed on %s:\n%s" % (module, tail))
    return r


def printed_values(stdout: str) -> list:
    """Values printed with PrintT (TLC pretty-prints over several lines): bracket matching."""
    vals = []
    lines = stdout.splitlines()
    i = 0
    while i < len(lines):
        ln = lines[i]
        if ln.startswith("<<") or ln.startswith("[") or ln.startswith("{"):
            buf, depth = [], 0
            while i < len(lines):
                cur = re.sub(r'"(?:[^"\\]|\\.)*"', '""', lines[i])
                depth += cur.count("<<") + cur.count("[") + cur.count("{") + cur.count("(")
                depth -= cur.count(">>") + cur.count("]") + cur.count("}") + cur.count(")")
                buf.append(lines[i])
                i += 1
                if depth <= 0:
                    break
            try:
                vals.append(parse_tla(" ".join(buf)))
            except Exception:
                pass
        else:
            i += 1
    return vals


def trace_verdict(stdout: str, expected_len: int):
    """(rejected list, consumed record) of a Trace_* batch run; raises if the trace was not consumed."""
    rej = cons = None
    for v in printed_values(stdout):
        if isinstance(v, list) and v and v[0] == "REJECTED":
            rej = v[1]
        elif isinstance(v, list) and v and v[0] == "CONSUMED":
            cons = v
    if rej is None or cons is None or cons[1] != cons[2] or cons[2] != expected_len:
        raise MachineryError("trace not fully consumed: %s (expected %d)" % (cons, expected_len))
    return rej, cons


# --------------------------------------------------------------------------
# known findings
# --------------------------------------------------------------------------
def load_findings(pid: str) -> list:
    if not FINDINGS.exists():
        return []
    data = json.loads(FINDINGS.read_text())
    return [f for f in data.get("findings", []) if f["property"] == pid]


# --------------------------------------------------------------------------
# run context
# --------------------------------------------------------------------------
class Ctx:
    """One run of one property's check."""

    def __init__(self, pid: str, tier: str, seed: int):
        self.pid, self.tier, self.seed = pid, tier, seed
        self.t0 = time.time()
        self.work = WORK / pid
        shutil.rmtree(self.work, ignore_errors=True)
        self.work.mkdir(parents=True, exist_ok=True)
        self.findings = load_findings(pid)
        self.known_hits = {}   # finding id -> count
        self.known_example = {}
        self.violations = []
        self.cov = {"states": 0, "transitions": 0, "traces_validated_against_impl": 0, "samples": [],
                    "evaluations": 0, "exhaustive": True, "tlc_runs": [], "model_invariants": []}
        self.assumptions = []
        self.sigs = {}
        self.quiet = False

    @property
    def quick(self):
        return self.tier == "quick"

    # ---- TLC wrappers keeping the statistics
    def tlc(self, module, cfg, **kw) -> TLCResult:
        name = kw.pop("name", module)
        r = run_tlc(module, cfg, self.work, **kw)
        self.cov["states"] += r.distinct
        self.cov["transitions"] += r.generated
        self.cov["tlc_runs"].append({"name": name, "module": module, "distinct_states": r.distinct,
                                     "states_generated": r.generated, "depth": r.depth,
                                     "wall_s": round(r.wall, 1), "mode": "simulate" if kw.get("simulate") else "bfs"})
        if kw.get("simulate"):
            self.cov["exhaustive"] = False
        if r.violated:
            # an invariant of the *model* failed: the specification itself is inconsistent -> machinery
            raise MachineryError("model invariant %s violated in %s:\n%s" % (
                r.violated, module, "\n".join(r.stdout.splitlines()[-60:])))
        for m in re.findall(r"^INVARIANTS?\s+(.*)$", cfg, re.M):
            for nm in m.split():
                if nm not in self.cov["model_invariants"]:
                    self.cov["model_invariants"].append(nm)
        return r

    def sample(self, x, limit=6):
        if len(self.cov["samples"]) < limit:
            self.cov["samples"].append(x)

    # ---- disagreement reporting
    def disagree(self, sig: str, case: dict):
        """A case where the implementation does not do what the specification says.
        `sig` is the structural signature used for known-finding matching."""
        self.sigs[sig] = self.sigs.get(sig, 0) + 1
        for f in self.findings:
            if f.get("status") != "known":
                continue
            if re.fullmatch(f["sig"], sig):
                self.known_hits[f["id"]] = self.known_hits.get(f["id"], 0) + 1
                self.known_example.setdefault(f["id"], case)
                return
        if len(self.violations) < 200:
            self.violations.append({"sig": sig, "case": case})
        else:
            self.violations.append(None)

    def finish(self, level="model_checking", rule="", extra=None) -> int:
        for f in self.findings:
            if f.get("status") == "known" and f["id"] in self.known_hits:
                print("KNOWN-FINDING: property=%s %s [%s; %d case(s) this run, e.g. %s]" % (
                    self.pid, f["what"], f["id"], self.known_hits[f["id"]],
                    json.dumps(self.known_example[f["id"]], default=str)[:300]))
        nviol = len(self.violations)
        rdir = REPLAYS / self.pid
        if nviol:
            shutil.rmtree(rdir, ignore_errors=True)
            rdir.mkdir(parents=True, exist_ok=True)
            seen = {}
            for v in self.violations:
                if v is None:
                    continue
                k = seen.get(v["sig"], 0)
                seen[v["sig"]] = k + 1
                if k >= 3:
                    continue
                path = rdir / ("%s_%d.json" % (re.sub(r"[^A-Za-z0-9_.-]+", "_", v["sig"])[:80], k))
                path.write_text(json.dumps({"property": self.pid, "sig": v["sig"], "case": v["case"],
                                            "tier": self.tier, "seed": self.seed}, indent=1, default=str))
                print("VIOLATION property=%s replay=%s" % (self.pid, path))
                print("  sig=%s case=%s" % (v["sig"], json.dumps(v["case"], default=str)[:400]))
        cov = dict(self.cov)
        cov["rule"] = rule
        cov["distinct_nontrivial"] = cov.get("distinct_nontrivial", cov["evaluations"])
        cov["known_findings_hit"] = self.known_hits
        cov["disagreement_signatures"] = self.sigs
        if extra:
            cov.update(extra)
        if cov["states"] < 1 or cov["transitions"] < 1:
            raise MachineryError("no TLC states recorded")
        ev = {"property_id": self.pid, "tier": self.tier, "seed": self.seed, "level": level,
              "coverage": cov, "assumptions": self.assumptions, "wall_s": round(time.time() - self.t0, 1),
              "violations": nviol}
        evdir = EVID if not self.pid.startswith("X") else OUT / "evidence_extra"      # X...: growth checks outside the listed properties
        evdir.mkdir(exist_ok=True)
        (evdir / (self.pid + ".json")).write_text(json.dumps(ev, indent=1, default=str))
        shutil.rmtree(self.work, ignore_errors=True)
        print("%s %s: states=%d transitions=%d replayed/validated=%d evaluations=%d known=%d violations=%d wall=%.0fs" % (
            self.pid, self.tier, cov["states"], cov["transitions"], cov["traces_validated_against_impl"],
            cov["evaluations"], sum(self.known_hits.values()), nviol, time.time() - self.t0))
        return 1 if nviol else 0


# --------------------------------------------------------------------------
# integer <-> limbs (base 2^15, little endian), shared with specs/BigInt.tla
# --------------------------------------------------------------------------
LB = 15
BASE = 1 << LB


def limbs(n: int) -> list:
    n = abs(n)
    out = []
    while n:
        out.append(n & (BASE - 1))
        n >>= LB
    return out


def big(n: int) -> dict:
    return {"neg": n < 0, "m": limbs(n)}


def unbig(x) -> int:
    v = 0
    for d in reversed(x["m"]):
        v = (v << LB) | d
    return -v if x.get("neg") else v


def write_ndjson(path, events):
    with open(path, "w") as f:
        for e in events:
            f.write(json.dumps(e, separators=(",", ":")))
            f.write("\n")


WORKER_INIT = []        # callables run in every forked worker before it takes work (celx varies the order its environments are created in)


def _worker_init():
    import multiprocessing as mp
    ident = (mp.current_process()._identity or (0,))[0]
    for f in WORKER_INIT:
        f(ident)


def pmap(fn, items, procs=None, chunk=None):
    """Parallel map over forked workers (order preserved)."""
    items = list(items)
    if len(items) < 64:
        return [fn(x) for x in items]
    import multiprocessing as mp
    procs = procs or NCPU
    chunk = chunk or max(1, min(500, len(items) // (procs * 4)))
    import gc
    gc.collect()
    gc.freeze()        # keep the parent's heap out of the children's collections (copy-on-write storms)
    try:
        with mp.get_context("fork").Pool(procs, initializer=_worker_init) as pool:
            return pool.map(fn, items, chunksize=chunk)
    finally:
        gc.unfreeze()
