"""Install the caching arena allocator (harness/native/arena.c) into this interpreter.
Purely a performance measure for the harness processes (see the comment in arena.c); any failure to build or
load it is ignored and the default allocator stays in place."""
import ctypes
import os
import subprocess
from pathlib import Path

_DONE = False


def install():
    global _DONE
    if _DONE or os.environ.get("VERIF_NO_ARENA"):
        return
    _DONE = True
    root = Path(__file__).resolve().parent.parent
    so = root / ".build" / "arena.so"
    src = Path(__file__).resolve().parent / "native" / "arena.c"
    try:
        if not so.exists() or so.stat().st_mtime < src.stat().st_mtime:
            so.parent.mkdir(exist_ok=True)
            tmp = so.with_suffix(".%d.tmp" % os.getpid())
            subprocess.run(["clang", "-O2", "-shared", "-fPIC", "-o", str(tmp), str(src)], check=True, capture_output=True)
            os.replace(tmp, so)
        lib = ctypes.CDLL(str(so))
        lib.verif_arena_struct.restype = ctypes.c_void_p
        ctypes.pythonapi.PyObject_SetArenaAllocator.argtypes = [ctypes.c_void_p]
        ctypes.pythonapi.PyObject_SetArenaAllocator(lib.verif_arena_struct())
    except Exception:  # noqa: BLE001
        pass
