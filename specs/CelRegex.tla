---------------------------- MODULE CelRegex ----------------------------
(* A reference matcher for the regular-expression fragment of `matches` (C09).  Independent of any regex engine:
   a recursive-descent parser from the pattern's code points to a syntax tree, and a set-of-end-positions matcher.

   Fragment: literals, `.` (any code point but newline), `* + ?` (and their non-greedy forms, which accept the same texts),
   `|`, `( )`, `[...]` / `[^...]` with ranges and escaped members, `^` `$` (whole-text anchors), `\` + punctuation,
   `\d \w \s \D \W \S`.  `matches` is a SEARCH: the pattern may match anywhere in the text.

   RxParse(p) = [k |-> "bad"]   the pattern is invalid: the evaluation must be an error
              = [k |-> "unk"]   the pattern uses syntax outside the fragment: nothing is claimed
              = a tree otherwise *)
EXTENDS Integers, Sequences, FiniteSets
RxBad == [k |-> "bad"]
RxUnk == [k |-> "unk"]
RxEps == [k |-> "eps"]
RxFail(n) == n.k \in {"bad", "unk"}
cDot == 46  cStar == 42  cPlus == 43  cQ == 63  cBar == 124  cLP == 40  cRP == 41  cLB == 91  cRB == 93
cHat == 94  cDollar == 36  cBS == 92  cLC == 123  cRC == 125  cDash == 45  cColon == 58
RepOps == {cStar, cPlus, cQ}
IsAlnum(c) == (c >= 48 /\ c <= 57) \/ (c >= 65 /\ c <= 90) \/ (c >= 97 /\ c <= 122)
DigitR == { <<48, 57>> }
WordR == { <<48, 57>>, <<65, 90>>, <<97, 122>>, <<95, 95>> }
SpaceR == { <<9, 10>>, <<12, 13>>, <<32, 32>> }
Cls(neg, rs) == [k |-> "cls", neg |-> neg, rs |-> rs]
\* the node an escape \c denotes (outside and inside classes), or unk
EscNode(c) == CASE c = 100 -> Cls(FALSE, DigitR) [] c = 68 -> Cls(TRUE, DigitR)
                [] c = 119 -> Cls(FALSE, WordR) [] c = 87 -> Cls(TRUE, WordR)
                [] c = 115 -> Cls(FALSE, SpaceR) [] c = 83 -> Cls(TRUE, SpaceR)
                [] IsAlnum(c) \/ c > 127 -> RxUnk               \* \b \A \z \pL \x41 \1 ...: outside the fragment
                [] OTHER -> [k |-> "chr", c |-> c]             \* escaped punctuation is itself

\* ---- character classes: p is the position after "[" ; result [n, p]
RECURSIVE ClsItems(_,_,_,_)
\* s[q] is the next member candidate; first = TRUE if no member has been read yet (a "]" is then a member)
ClsItems(s, q, first, rs) ==
  IF q > Len(s) THEN [n |-> RxBad, p |-> q]                                            \* missing ]
  ELSE IF s[q] = cRB /\ ~first THEN [n |-> Cls(FALSE, rs), p |-> q + 1]
  ELSE IF s[q] = cLB /\ q < Len(s) /\ s[q + 1] = cColon THEN [n |-> RxUnk, p |-> q]    \* [[:alpha:]]
  ELSE LET esc == s[q] = cBS
           lo == IF esc THEN (IF q + 1 > Len(s) THEN RxBad ELSE EscNode(s[q + 1])) ELSE [k |-> "chr", c |-> s[q]]
           q1 == IF esc THEN q + 2 ELSE q + 1
       IN IF RxFail(lo) THEN [n |-> lo, p |-> q]
          ELSE IF lo.k = "cls" THEN (IF lo.neg THEN [n |-> RxUnk, p |-> q] ELSE ClsItems(s, q1, FALSE, rs \cup lo.rs))
          ELSE IF q1 + 1 <= Len(s) /\ s[q1] = cDash /\ s[q1 + 1] # cRB THEN                \* a range lo-hi
               LET esc2 == s[q1 + 1] = cBS
                   hi == IF esc2 THEN (IF q1 + 2 > Len(s) THEN RxBad ELSE EscNode(s[q1 + 2])) ELSE [k |-> "chr", c |-> s[q1 + 1]]
                   q2 == IF esc2 THEN q1 + 3 ELSE q1 + 2
               IN IF RxFail(hi) THEN [n |-> hi, p |-> q]
                  ELSE IF hi.k # "chr" THEN [n |-> RxBad, p |-> q]
                  ELSE IF hi.c < lo.c THEN [n |-> RxBad, p |-> q]                       \* bad character class range
                  ELSE ClsItems(s, q2, FALSE, rs \cup { <<lo.c, hi.c>> })
          ELSE ClsItems(s, q1, FALSE, rs \cup { <<lo.c, lo.c>> })
PClass(s, p) ==
  LET neg == p <= Len(s) /\ s[p] = cHat
      r == ClsItems(s, IF neg THEN p + 1 ELSE p, TRUE, {})
  IN IF RxFail(r.n) THEN r ELSE [n |-> Cls(neg, r.n.rs), p |-> r.p]

\* ---- the grammar:  alt := cat ( "|" cat )*    cat := rep*    rep := atom ( "*" | "+" | "?" ) "?"?
RECURSIVE PAlt(_,_), PCat(_,_), PAtom(_,_)
PostOp(s, r) ==       \* r = [n, p] an atom; apply at most one repetition operator (a second one directly after it is invalid)
  IF RxFail(r.n) \/ r.p > Len(s) \/ s[r.p] \notin RepOps THEN r
  ELSE LET op == s[r.p]
           node == [k |-> (CASE op = cStar -> "star" [] op = cPlus -> "plus" [] OTHER -> "opt"), a |-> r.n]
           p1 == IF r.p + 1 <= Len(s) /\ s[r.p + 1] = cQ THEN r.p + 2 ELSE r.p + 1           \* non-greedy marker
       IN IF p1 <= Len(s) /\ s[p1] \in RepOps THEN [n |-> RxBad, p |-> p1]               \* a** a+* a*?* : bad repetition operator
          ELSE IF p1 <= Len(s) /\ s[p1] = cLC THEN [n |-> RxUnk, p |-> p1]
          ELSE [n |-> node, p |-> p1]
PAtom(s, p) ==
  LET c == s[p] IN
  CASE c \in RepOps -> [n |-> RxBad, p |-> p]                                            \* missing argument to repetition operator
    [] c = cLP -> (IF p + 1 <= Len(s) /\ s[p + 1] = cQ THEN [n |-> RxUnk, p |-> p]      \* (?: (?i) (?P<n> : outside the fragment
                   ELSE LET a == PAlt(s, p + 1) IN
                        IF RxFail(a.n) THEN a
                        ELSE IF a.p <= Len(s) /\ s[a.p] = cRP THEN [n |-> a.n, p |-> a.p + 1]
                        ELSE [n |-> RxBad, p |-> a.p])                                   \* missing )
    [] c = cLB -> PClass(s, p + 1)
    [] c = cDot -> [n |-> [k |-> "any"], p |-> p + 1]
    [] c = cHat -> [n |-> [k |-> "bol"], p |-> p + 1]
    [] c = cDollar -> [n |-> [k |-> "eol"], p |-> p + 1]
    [] c = cBS -> (IF p + 1 > Len(s) THEN [n |-> RxBad, p |-> p]                          \* trailing backslash
                   ELSE [n |-> EscNode(s[p + 1]), p |-> p + 2])
    [] c \in {cLC, cRC} -> [n |-> RxUnk, p |-> p]                                        \* counted repetition: outside the fragment
    [] OTHER -> [n |-> [k |-> "chr", c |-> c], p |-> p + 1]
PCat(s, p) ==
  IF p > Len(s) \/ s[p] \in {cBar, cRP} THEN [n |-> RxEps, p |-> p]
  ELSE LET a == PostOp(s, PAtom(s, p)) IN
       IF RxFail(a.n) THEN a
       ELSE LET b == PCat(s, a.p) IN
            IF RxFail(b.n) THEN b ELSE [n |-> (IF b.n = RxEps THEN a.n ELSE [k |-> "cat", a |-> a.n, b |-> b.n]), p |-> b.p]
PAlt(s, p) ==
  LET a == PCat(s, p) IN
  IF RxFail(a.n) THEN a
  ELSE IF a.p <= Len(s) /\ s[a.p] = cBar THEN
       LET b == PAlt(s, a.p + 1) IN IF RxFail(b.n) THEN b ELSE [n |-> [k |-> "alt", a |-> a.n, b |-> b.n], p |-> b.p]
  ELSE a
\* "unk" anywhere wins over "bad" found later only if it comes first: the parser stops at the first problem, as engines do;
\* but an engine may report a LATER error for a pattern whose earlier part we do not model, so unk is final.
RxParse(s) == LET r == PAlt(s, 1) IN
              IF RxFail(r.n) THEN r.n ELSE IF r.p <= Len(s) THEN RxBad ELSE r.n           \* a stray ")"

\* ---- matching: the set of positions where a match of n starting at i can end
RECURSIVE Ends(_,_,_), StarClose(_,_,_,_)
InRanges(rs, c) == \E r \in rs : r[1] <= c /\ c <= r[2]
Ends(n, s, i) ==
  CASE n.k = "eps" -> {i}
    [] n.k = "chr" -> IF i <= Len(s) /\ s[i] = n.c THEN {i + 1} ELSE {}
    [] n.k = "any" -> IF i <= Len(s) /\ s[i] # 10 THEN {i + 1} ELSE {}
    [] n.k = "cls" -> IF i <= Len(s) /\ (InRanges(n.rs, s[i]) # n.neg) THEN {i + 1} ELSE {}
    [] n.k = "bol" -> IF i = 1 THEN {i} ELSE {}
    [] n.k = "eol" -> IF i = Len(s) + 1 THEN {i} ELSE {}
    [] n.k = "cat" -> UNION { Ends(n.b, s, j) : j \in Ends(n.a, s, i) }
    [] n.k = "alt" -> Ends(n.a, s, i) \cup Ends(n.b, s, i)
    [] n.k = "star" -> StarClose(n.a, s, {i}, {i})
    [] n.k = "plus" -> UNION { StarClose(n.a, s, {j}, {j}) : j \in Ends(n.a, s, i) }
    [] n.k = "opt" -> {i} \cup Ends(n.a, s, i)
StarClose(a, s, front, acc) ==
  LET nxt == UNION { Ends(a, s, j) : j \in front } \ acc IN
  IF nxt = {} THEN acc ELSE StarClose(a, s, nxt, acc \cup nxt)
RxSearch(n, s) == \E i \in 1..(Len(s) + 1) : Ends(n, s, i) # {}
RxFull(n, s) == (Len(s) + 1) \in Ends(n, s, 1)
\* "t" / "f" / "bad" / "unk"
RxMatches(text, pat) == LET n == RxParse(pat) IN IF RxFail(n) THEN n.k ELSE IF RxSearch(n, text) THEN "t" ELSE "f"
=============================================================================
