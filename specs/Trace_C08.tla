---------------------------- MODULE Trace_C08 ----------------------------
(* Code -> spec: relation events [a, b, op, out] recorded from the implementation on random same-type values. *)
EXTENDS CelValue, TLC, Json, IOUtils
Trace == ndJsonDeserialize(IOEnv.TRACE_FILE)
VARIABLE i
RECURSIVE V(_)
\* rebuild a spec value from its JSON wire form (records lose nothing, but sequences of pairs arrive as sequences)
V(w) == CASE w.t \in {"int", "uint", "timestamp", "duration"} -> [t |-> w.t, neg |-> w.neg, m |-> w.m]
          [] w.t = "double" -> [t |-> "double", c |-> w.c, neg |-> w.neg, m |-> w.m, e |-> w.e]
          [] w.t = "bool" -> Bool(w.v)
          [] w.t = "null" -> Null
          [] w.t \in {"string", "bytes"} -> [t |-> w.t, v |-> w.v]
          [] w.t = "list" -> List([j \in 1..Len(w.v) |-> V(w.v[j])])
          [] w.t = "map" -> Map([j \in 1..Len(w.v) |-> <<V(w.v[j][1]), V(w.v[j][2])>>])
Expected(e) == Rel(e.op, V(e.a), V(e.b))
EventOK(e) == e.out.t = "bool" /\ e.out.v = Expected(e).v
Init == i = 1 /\ TLCSet(1, <<>>)
Next == /\ i <= Len(Trace) /\ i' = i + 1
        /\ (EventOK(Trace[i]) \/ TLCSet(1, Append(TLCGet(1), <<i, Expected(Trace[i])>>)))
Post == /\ PrintT(<<"REJECTED", TLCGet(1)>>)
        /\ PrintT(<<"CONSUMED", TLCGet("stats").diameter - 1, Len(Trace), 0>>)
=============================================================================
