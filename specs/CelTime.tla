---------------------------- MODULE CelTime ----------------------------
(* Calendar and time arithmetic for CEL timestamps and durations (C10, C11), independent of any date library:
   proleptic Gregorian calendar (days <-> civil date), a timestamp = microseconds since 1970-01-01T00:00:00Z (BigInt),
   RFC 3339 text, duration text  (digits[.digits] unit)+  with units h m s ms us ns, calendar accessors under a fixed
   UTC offset (IANA zones reduce to an offset for a given instant through a hand-encoded table in the model). *)
EXTENDS CelLiteral

RECURSIVE Pow10(_)
Pow10(k) == IF k = 0 THEN <<1>> ELSE MMulSmall(Pow10(k - 1), 10)

\* ---- proleptic Gregorian calendar on day numbers (0 = 1970-01-01); plain TLC integers (|days| < 4,000,000)
FloorDiv(a, b) == IF a >= 0 THEN a \div b ELSE -((-a + b - 1) \div b)
DaysFromCivil(y0, m, d) ==
  LET y == IF m <= 2 THEN y0 - 1 ELSE y0
      era == FloorDiv(y, 400)
      yoe == y - era * 400
      mp == IF m > 2 THEN m - 3 ELSE m + 9
      doy == (153 * mp + 2) \div 5 + d - 1
      doe == yoe * 365 + yoe \div 4 - yoe \div 100 + doy
  IN era * 146097 + doe - 719468
CivilFromDays(z0) ==
  LET z == z0 + 719468
      era == FloorDiv(z, 146097)
      doe == z - era * 146097
      yoe == (doe - doe \div 1460 + doe \div 36524 - doe \div 146096) \div 365
      y == yoe + era * 400
      doy == doe - (365 * yoe + yoe \div 4 - yoe \div 100)
      mp == (5 * doy + 2) \div 153
      d == doy - (153 * mp + 2) \div 5 + 1
      m == IF mp < 10 THEN mp + 3 ELSE mp - 9
  IN [y |-> IF m <= 2 THEN y + 1 ELSE y, m |-> m, d |-> d]
IsLeap(y) == (y % 4 = 0 /\ y % 100 # 0) \/ y % 400 = 0
DaysInMonth(y, m) == IF m = 2 THEN (IF IsLeap(y) THEN 29 ELSE 28) ELSE IF m \in {4, 6, 9, 11} THEN 30 ELSE 31
Weekday(days) == (((days + 4) % 7) + 7) % 7           \* 0 = Sunday; 1970-01-01 was a Thursday

\* ---- splitting an instant (BigInt microseconds) into day number, second of day, microsecond
Mega == FromInt(1000000)
SecPerDay == FromInt(86400)
MicroPerDay == Mul(SecPerDay, Mega)
BFloorDivMod(x, y) == \* y > 0; returns <<q, r>> with x = q*y + r, 0 <= r < y
  IF ~x.neg THEN <<TDiv(x, y), TRem(x, y)>>
  ELSE LET q == Neg(TDiv(Sub(Add(Neg(x), y), One), y)) IN <<q, Sub(x, Mul(q, y))>>
\* (linear-time small divisions: 10^6 = 1000 * 1000, 86400 = 128 * 675; the general BFloorDivMod above is kept as the reference and
\*  the two are compared by the invariant SplitAgrees of MC_C11)
Split(us) == LET a == FloorDivModSmall(us, 1000)
                 b == FloorDivModSmall(a[1], 1000)
                 c == FloorDivModSmall(b[1], 128)
                 d == FloorDivModSmall(c[1], 675)
             IN [days |-> ToInt(d[1]), secs |-> d[2] * 128 + c[2], micros |-> b[2] * 1000 + a[2]]
SplitRef(us) == LET dr == BFloorDivMod(us, MicroPerDay)
                    sr == BFloorDivMod(dr[2], Mega)
                IN [days |-> ToInt(dr[1]), secs |-> ToInt(sr[1]), micros |-> ToInt(sr[2])]
EpochSeconds(us) == FloorDivModSmall(FloorDivModSmall(us, 1000)[1], 1000)[1]
Join(days, secs, micros) == Add(Mul(Add(Mul(FromInt(days), SecPerDay), FromInt(secs)), Mega), FromInt(micros))
Minutes(n) == Mul(FromInt(n * 60), Mega)
\* civil fields of instant us seen with a UTC offset of off minutes
Fields(us, off) == LET s == Split(Add(us, Minutes(off)))  c == CivilFromDays(s.days) IN
   [y |-> c.y, m |-> c.m, d |-> c.d, hh |-> s.secs \div 3600, mm |-> (s.secs \div 60) % 60, ss |-> s.secs % 60,
    ms |-> s.micros \div 1000, us |-> s.micros, dow |-> Weekday(s.days), doy |-> s.days - DaysFromCivil(c.y, 1, 1)]
Accessor(f, us, off) == LET x == Fields(us, off) IN
   CASE f = "getFullYear" -> x.y [] f = "getMonth" -> x.m - 1 [] f = "getDate" -> x.d [] f = "getDayOfMonth" -> x.d - 1
     [] f = "getDayOfYear" -> x.doy [] f = "getDayOfWeek" -> x.dow [] f = "getHours" -> x.hh [] f = "getMinutes" -> x.mm
     [] f = "getSeconds" -> x.ss [] f = "getMilliseconds" -> x.ms
Accessors == {"getFullYear", "getMonth", "getDate", "getDayOfMonth", "getDayOfYear", "getDayOfWeek", "getHours", "getMinutes", "getSeconds", "getMilliseconds"}

Pad(n, w) == LET ds == ToDigits(MFromNat(n), 10) IN [j \in 1..(w - Len(ds)) |-> 48] \o [j \in 1..Len(ds) |-> 48 + ds[j]]
Num(s) == MToNat(FromDigits([j \in 1..Len(s) |-> s[j] - 48], 10))
AllDigits(s) == \A j \in 1..Len(s) : IsDigit(s[j])
\* ---- zones: "+HH:MM" / "-HH:MM" offsets, and a hand-encoded table of IANA zones
\*      (constant-offset zones; DST zones only at January / July instants of 1990..2037, where the offset is not in doubt)
ZName(s) == s        \* zone names are code point sequences
Z_UTC == <<85, 84, 67>>
Z_Kolkata == <<65,115,105,97,47,75,111,108,107,97,116,97>>
Z_Tokyo == <<65,115,105,97,47,84,111,107,121,111>>
Z_Kathmandu == <<65,115,105,97,47,75,97,116,104,109,97,110,100,117>>
Z_Phoenix == <<65,109,101,114,105,99,97,47,80,104,111,101,110,105,120>>
Z_NewYork == <<65,109,101,114,105,99,97,47,78,101,119,95,89,111,114,107>>
Z_Paris == <<69,117,114,111,112,101,47,80,97,114,105,115>>
Z_Sydney == <<65,117,115,116,114,97,108,105,97,47,83,121,100,110,101,121>>
NoOffset == 100000
\* the n-th Sunday of month m (day number), and the last Sunday of a 31-day month
NthSunday(y, m, n) == LET d1 == DaysFromCivil(y, m, 1) IN d1 + ((7 - Weekday(d1)) % 7) + 7 * (n - 1)
LastSunday31(y, m) == LET d31 == DaysFromCivil(y, m, 31) IN d31 - Weekday(d31)
ZoneOffset(z, us) ==
  IF Len(z) = 6 /\ z[1] \in {43, 45} /\ AllDigits(SubSeq(z, 2, 3)) /\ z[4] = 58 /\ AllDigits(SubSeq(z, 5, 6))
  THEN (IF z[1] = 45 THEN -1 ELSE 1) * (Num(SubSeq(z, 2, 3)) * 60 + Num(SubSeq(z, 5, 6)))
  ELSE CASE z = Z_UTC -> 0
         [] z \in {Z_Kolkata, Z_Tokyo, Z_Kathmandu, Z_Phoenix} ->      \* constant offsets -- in the tz database since 1986 at the latest
              (LET y == Fields(us, 0).y IN IF y < 1990 \/ y > 2037 THEN NoOffset
               ELSE CASE z = Z_Kolkata -> 330 [] z = Z_Tokyo -> 540 [] z = Z_Kathmandu -> 345 [] z = Z_Phoenix -> -420)
         [] z \in {Z_NewYork, Z_Paris, Z_Sydney} ->
              (LET f == Fields(us, 0) IN
               IF f.y >= 2008 /\ f.y <= 2037 THEN
                    \* the zones' current daylight-saving rules, exact to the second (in force since 2007 / 1996 / 2008)
                    LET at == <<Split(us).days, Split(us).secs>>
                        Before(p, q) == p[1] < q[1] \/ (p[1] = q[1] /\ p[2] < q[2])
                    IN CASE z = Z_NewYork -> (IF ~Before(at, <<NthSunday(f.y, 3, 2), 7 * 3600>>) /\ Before(at, <<NthSunday(f.y, 11, 1), 6 * 3600>>) THEN -240 ELSE -300)
                         [] z = Z_Paris -> (IF ~Before(at, <<LastSunday31(f.y, 3), 3600>>) /\ Before(at, <<LastSunday31(f.y, 10), 3600>>) THEN 120 ELSE 60)
                         [] z = Z_Sydney -> (IF Before(at, <<NthSunday(f.y, 4, 1) - 1, 16 * 3600>>) \/ ~Before(at, <<NthSunday(f.y, 10, 1) - 1, 16 * 3600>>) THEN 660 ELSE 600)
               ELSE IF f.y < 1990 \/ f.y > 2037 \/ f.m \notin {1, 7} \/ f.d < 3 \/ f.d > 26 THEN NoOffset
               ELSE CASE z = Z_NewYork -> (IF f.m = 1 THEN -300 ELSE -240)
                      [] z = Z_Paris -> (IF f.m = 1 THEN 60 ELSE 120)
                      [] z = Z_Sydney -> (IF f.m = 1 THEN 660 ELSE 600))
         [] OTHER -> NoOffset

\* ---- ranges
TsMinUs == Join(DaysFromCivil(1, 1, 1), 0, 0)
TsMaxUs == Join(DaysFromCivil(9999, 12, 31), 86399, 999999)
DurLimUs == Mul(Mul(FromInt(315576), Mega), Mega)
InTs(x) == Cmp(x, TsMinUs) >= 0 /\ Cmp(x, TsMaxUs) <= 0
InDur(x) == Cmp(x, Neg(DurLimUs)) >= 0 /\ Cmp(x, DurLimUs) <= 0

\* ---- text
\* the fraction of a second, as the JSON mapping of google.protobuf.Timestamp / Duration writes it: three digits, or six when needed
FracDigits(us6) == IF us6 % 1000 = 0 THEN Pad(us6 \div 1000, 3) ELSE Pad(us6, 6)
\* RFC 3339 in UTC: 4-digit year; fraction only when the microseconds are not zero
Rfc3339(us) == LET f == Fields(us, 0) IN
   Pad(f.y, 4) \o <<45>> \o Pad(f.m, 2) \o <<45>> \o Pad(f.d, 2) \o <<84>> \o Pad(f.hh, 2) \o <<58>> \o Pad(f.mm, 2) \o <<58>> \o Pad(f.ss, 2)
   \o (IF f.us = 0 THEN <<>> ELSE <<46>> \o FracDigits(f.us)) \o <<90>>
\* parse  YYYY-MM-DDTHH:MM:SS[.f{1,6}](Z|+HH:MM|-HH:MM)  -> BigInt microseconds, or "bad"
BadTs == [neg |-> FALSE, m |-> <<-1>>]
ParseTs(t) ==
  IF Len(t) < 20 THEN BadTs
  ELSE LET d == SubSeq(t, 1, 19)
           ok1 == AllDigits(SubSeq(d, 1, 4)) /\ d[5] = 45 /\ AllDigits(SubSeq(d, 6, 7)) /\ d[8] = 45 /\ AllDigits(SubSeq(d, 9, 10)) /\ d[11] \in {84, 116}
                  /\ AllDigits(SubSeq(d, 12, 13)) /\ d[14] = 58 /\ AllDigits(SubSeq(d, 15, 16)) /\ d[17] = 58 /\ AllDigits(SubSeq(d, 18, 19))
           rest == SubSeq(t, 20, Len(t))
           hasF == rest[1] = 46
           fl == IF hasF THEN (CHOOSE k \in 0..(Len(rest) - 1) : (\A j \in 2..(k + 1) : IsDigit(rest[j])) /\ (k + 2 > Len(rest) \/ ~IsDigit(rest[k + 2]))) ELSE 0
           frac == IF hasF THEN SubSeq(rest, 2, fl + 1) ELSE <<>>
           zone == SubSeq(rest, (IF hasF THEN fl + 2 ELSE 1), Len(rest))
           zoneOK == zone \in {<<90>>, <<122>>} \/ (Len(zone) = 6 /\ zone[1] \in {43, 45} /\ AllDigits(SubSeq(zone, 2, 3)) /\ zone[4] = 58 /\ AllDigits(SubSeq(zone, 5, 6)))
       IN IF ~ok1 \/ ~zoneOK \/ (hasF /\ (fl = 0 \/ fl > 6)) THEN BadTs
          ELSE LET y == Num(SubSeq(d, 1, 4)) mo == Num(SubSeq(d, 6, 7)) dd == Num(SubSeq(d, 9, 10))
                   hh == Num(SubSeq(d, 12, 13)) mi == Num(SubSeq(d, 15, 16)) ss == Num(SubSeq(d, 18, 19))
                   us == IF hasF THEN Num(frac \o [j \in 1..(6 - fl) |-> 48]) ELSE 0
                   off == IF Len(zone) = 1 THEN 0 ELSE (IF zone[1] = 45 THEN -1 ELSE 1) * (Num(SubSeq(zone, 2, 3)) * 60 + Num(SubSeq(zone, 5, 6)))
               IN IF y < 1 \/ mo < 1 \/ mo > 12 \/ dd < 1 \/ dd > DaysInMonth(y, mo) \/ hh > 23 \/ mi > 59 \/ ss > 59 THEN BadTs
                  ELSE Sub(Join(DaysFromCivil(y, mo, dd), hh * 3600 + mi * 60 + ss, us), Minutes(off))
\* duration text: "<seconds>s", with the fraction of a second when there is one (the sign stands in front of the whole text)
DurText(us) == LET q == TDiv(us, Mega)  r == ToInt(Mk(FALSE, TRem(us, Mega).m)) IN
               (IF us.neg /\ us.m # <<>> THEN <<45>> ELSE <<>>) \o [j \in 1..Len(ToDigits(q.m, 10)) |-> 48 + ToDigits(q.m, 10)[j]]
               \o (IF r = 0 THEN <<>> ELSE <<46>> \o FracDigits(r)) \o <<115>>
\* parse  [+-] ( digits [ . digits ] unit )+   unit in h m s ms us ns; the total must be a whole number of microseconds
UnitMicros(u) == CASE u = <<104>> -> Mul(FromInt(3600), Mega) [] u = <<109>> -> Mul(FromInt(60), Mega) [] u = <<115>> -> Mega
                   [] u = <<109, 115>> -> FromInt(1000) [] u = <<117, 115>> -> One [] OTHER -> Z
BadDur == [neg |-> FALSE, m |-> <<-2>>]
InexactDur == [neg |-> FALSE, m |-> <<-3>>]
RECURSIVE DurParts(_,_)
DurParts(t, acc) ==      \* t: remaining text; acc: BigInt micros so far (or BadDur)
  IF t = <<>> \/ acc \in {BadDur, InexactDur} THEN acc
  ELSE LET nd == CHOOSE k \in 0..Len(t) : (\A j \in 1..k : IsDigit(t[j])) /\ (k = Len(t) \/ ~IsDigit(t[k + 1]))
           t1 == SubSeq(t, nd + 1, Len(t))
           hasF == t1 # <<>> /\ t1[1] = 46
           t2 == IF hasF THEN Tail(t1) ELSE t1
           nf == IF hasF THEN (CHOOSE k \in 0..Len(t2) : (\A j \in 1..k : IsDigit(t2[j])) /\ (k = Len(t2) \/ ~IsDigit(t2[k + 1]))) ELSE 0
           t3 == SubSeq(t2, nf + 1, Len(t2))
           ulen == IF Len(t3) >= 2 /\ SubSeq(t3, 1, 2) \in {<<109, 115>>, <<117, 115>>, <<110, 115>>} THEN 2 ELSE 1
           unit == IF t3 = <<>> THEN <<>> ELSE SubSeq(t3, 1, ulen)
           isNs == unit = <<110, 115>>
           U == IF isNs THEN One ELSE UnitMicros(unit)
           ip == Mk(FALSE, FromDigits([j \in 1..nd |-> t[j] - 48], 10))
           fp == Mk(FALSE, FromDigits([j \in 1..nf |-> t2[j] - 48], 10))
           \* value in micro-units * 10^nf (ns: additionally / 1000)
           scaled == Add(Mul(Mul(ip, U), Mk(FALSE, Pow10(nf))), Mul(fp, U))
           den == IF isNs THEN MMulSmall(Pow10(nf), 1000) ELSE Pow10(nf)
           qr == MDivMod(scaled.m, den)
       IN IF (nd = 0 /\ nf = 0) \/ unit = <<>> \/ (~isNs /\ U = Z) THEN BadDur
          ELSE IF qr[2] # <<>> THEN InexactDur        \* not a whole number of microseconds: out of model
          ELSE DurParts(SubSeq(t3, ulen + 1, Len(t3)), Add(acc, Mk(FALSE, qr[1])))
ParseDur(t) == IF t = <<>> THEN BadDur
               ELSE LET neg == t[1] = 45  body == IF t[1] \in {43, 45} THEN Tail(t) ELSE t  v == DurParts(body, Z)
                    IN IF body = <<>> \/ v = BadDur THEN BadDur ELSE IF v = InexactDur THEN InexactDur ELSE IF neg THEN Neg(v) ELSE v
=============================================================================
