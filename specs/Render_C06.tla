---------------------------- MODULE Render_C06 ----------------------------
(* Helper: evaluates the specification's Render and Full on the trees of a file and writes the token sequences
   (so that the texts fed to the library come from the specification, not from a re-implementation). *)
EXTENDS CelSyntax, Json, IOUtils
In == ndJsonDeserialize(IOEnv.TRACE_FILE)
VARIABLE done
Init == done = FALSE
Next == /\ ~done /\ done' = TRUE
        /\ ndJsonSerialize(IOEnv.OUT_FILE, [j \in 1..Len(In) |-> [r |-> Render(In[j].t, 1), f |-> Full(In[j].t)]])
=============================================================================
