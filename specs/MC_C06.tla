---------------------------- MODULE MC_C06 ----------------------------
(* C06 model: ASTs grown by wrapping the current tree in every syntactic position of every construct
   (MODE "chain"), and all binary/ternary combinations of two depth-1 trees (MODE "pairs").
   Each state carries the tree; the harness renders Render(t) and Full(t) to text and parses with the library. *)
EXTENDS CelSyntax, FiniteSets
CONSTANTS DEPTH, MODE, BINOPS, WIDE
VARIABLES t, d
vars == <<t, d>>
Leaf == { [k |-> "id", n |-> "a"], [k |-> "lit", n |-> "true"] }
Leaf2 == Leaf \cup { [k |-> "lit", n |-> "null"], [k |-> "lit", n |-> "1"], [k |-> "lit", n |-> "1.5"], [k |-> "lit", n |-> "1u"], [k |-> "id", n |-> "b"], [k |-> "lit", n |-> "false"],
                     \* identifiers that merely begin with a literal's spelling; string literals that differ only in their inner white space
                     [k |-> "id", n |-> "trueValue"], [k |-> "id", n |-> "nullable"], [k |-> "id", n |-> "false_1"], [k |-> "id", n |-> "inner"],
                     [k |-> "lit", n |-> "\"a b\""], [k |-> "lit", n |-> "\"a  b\""], [k |-> "lit", n |-> "\"a // b\""] }
IdLike(x) == TRUE       \* (a numeric literal as a receiver is rendered in parentheses: see Render)
Wrap(x, L) ==
        { [k |-> "bin", op |-> o, l |-> x, r |-> l] : o \in BINOPS, l \in L }
   \cup { [k |-> "bin", op |-> o, l |-> l, r |-> x] : o \in BINOPS, l \in L }
   \cup { [k |-> "un", op |-> o, x |-> x] : o \in {"!", "-"} }
   \cup { [k |-> "cond", c |-> x, a |-> l1, b |-> l2] : l1 \in L, l2 \in L }
   \cup { [k |-> "cond", c |-> l1, a |-> x, b |-> l2] : l1 \in L, l2 \in L }
   \cup { [k |-> "cond", c |-> l1, a |-> l2, b |-> x] : l1 \in L, l2 \in L }
   \cup (IF IdLike(x) THEN { [k |-> "sel", x |-> x, f |-> "f"], [k |-> "mcall", x |-> x, f |-> "m", args |-> <<>>] }
                            \cup { [k |-> "mcall", x |-> x, f |-> "m", args |-> <<l>>] : l \in L } ELSE {})
   \cup { [k |-> "idx", x |-> x, i |-> l] : l \in L }
   \cup { [k |-> "idx", x |-> l, i |-> x] : l \in L }
   \cup { [k |-> "mcall", x |-> l, f |-> "m", args |-> <<x>>] : l \in { y \in L : IdLike(y) } }
   \cup { [k |-> "mcall", x |-> l, f |-> "m", args |-> <<l, x>>] : l \in { y \in L : IdLike(y) } }
   \cup { [k |-> "call", f |-> "g", args |-> <<x>>], [k |-> "call", f |-> "g", args |-> <<>>], [k |-> "dotcall", f |-> "g", args |-> <<x>>] }
   \cup { [k |-> "call", f |-> "g", args |-> <<x, l>>] : l \in L }
   \cup { [k |-> "list", args |-> <<x>>], [k |-> "list", args |-> <<>>] }
   \cup { [k |-> "list", args |-> <<l, x>>] : l \in L }
   \cup { [k |-> "map", args |-> << <<x, l>> >>] : l \in L }
   \cup { [k |-> "map", args |-> << <<l, x>> >>] : l \in L }
   \cup { [k |-> "map", args |-> <<>>] }
   \* several entries / elements / arguments: their order is part of the tree
   \cup { [k |-> "map", args |-> << <<x, l>>, <<l, l>> >>] : l \in L } \cup { [k |-> "map", args |-> << <<l, l>>, <<l, x>>, <<x, x>> >>] : l \in L }
   \cup { [k |-> "list", args |-> <<l, x, l>>] : l \in L } \cup { [k |-> "call", f |-> "g", args |-> <<l, x, x>>] : l \in L }
   \cup { [k |-> "obj", x |-> [k |-> "id", n |-> "M"], args |-> << <<"f", l>>, <<"g", x>>, <<"h", l>> >>] : l \in L }
   \cup { [k |-> "obj", x |-> [k |-> "id", n |-> "M"], args |-> << <<"f", x>> >>], [k |-> "obj", x |-> [k |-> "id", n |-> "M"], args |-> << <<"f", x>>, <<"g", x>> >>],
          [k |-> "obj", x |-> [k |-> "sel", x |-> [k |-> "id", n |-> "p"], f |-> "M"], args |-> <<>>] }
D1 == Wrap([k |-> "id", n |-> "a"], {[k |-> "id", n |-> "b"]})
Pairs == { [k |-> "bin", op |-> o, l |-> x, r |-> y] : o \in BINOPS, x \in D1, y \in D1 }
Init == d = 0 /\ t \in (IF MODE = "chain" THEN (IF WIDE THEN Leaf2 ELSE Leaf) \cup { [k |-> "dotid", n |-> "a"] } ELSE Pairs)
Next == MODE = "chain" /\ d < DEPTH /\ d' = d + 1 /\ t' \in Wrap(t, IF d = 0 /\ WIDE THEN Leaf2 ELSE Leaf)
Spec == Init /\ [][Next]_vars
RoundTrip == Parse(Render(t, 1)) = t
FullRoundTrip == Parse(Full(t)) = t
\* Render really leaves parentheses out: it never emits more tokens than the fully parenthesised form
Economical == Len(Render(t, 1)) <= Len(Full(t))
=============================================================================
