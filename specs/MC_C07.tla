---------------------------- MODULE MC_C07 ----------------------------
(* C07 model, strings and bytes: a literal is a quoting style plus a sequence of body items
     [k |-> "c", v]  plain character        [k |-> "s", v]  simple escape \v (v = the letter)
     [k |-> "x", v]  \xHH    [k |-> "o", v]  \ooo    [k |-> "u", v]  \uHHHH    [k |-> "U", v]  \UHHHHHHHH
   Value(items) is what the language definition says the literal denotes; Text(items) is its spelling.
   Invariant: DecodeLiteral(Text) = Value (the character-level decoder agrees with the item-level denotation).
   Every state with valid = TRUE is evaluated by the implementation under both runners. *)
EXTENDS CelLiteral, TLC, FiniteSets
CONSTANTS LEN
STYLES == { [b |-> x, r |-> y, q |-> z] : x \in BOOLEAN, y \in BOOLEAN, z \in {"d", "s", "td", "ts"} }
VARIABLES style, items, valid, text, exp
vars == <<style, items, valid, text, exp>>
HexDigit(d) == IF d < 10 THEN 48 + d ELSE 87 + d
Hex2(v) == <<HexDigit(v \div 16), HexDigit(v % 16)>>
Hex4(v) == Hex2(v \div 256) \o Hex2(v % 256)
Oct3(v) == <<48 + (v \div 64), 48 + ((v \div 8) % 8), 48 + (v % 8)>>
C(v) == [k |-> "c", v |-> v]
PlainChars == {97, 48, 55, DQ, SQ, LF, CR, 233, 128049, BS, 120}
CookedItems == { C(v) : v \in PlainChars \ {BS} }
     \cup { [k |-> "s", v |-> v] : v \in {110, BS, DQ, SQ, 116} }
     \cup { [k |-> "x", v |-> v] : v \in {65, 233, 1} }
     \cup { [k |-> "o", v |-> v] : v \in {65, 1, 255} }
\* plain text that reads like the tail of an escape sequence: after an escaped backslash it is just text ("\\x41" is the four characters \x41)
Words == << <<120, 52, 49>>, <<117, 48, 48, 52, 49>>, <<49, 48, 49>>, <<85, 48, 48, 48, 48, 48, 48, 52, 49>> >>        \* x41  u0041  101  U00000041
WordItems == { [k |-> "w", v |-> j] : j \in 1..Len(Words) }
UItems == { [k |-> "u", v |-> v] : v \in {233, 65535} } \cup { [k |-> "U", v |-> 128049] }
RawItems == { C(v) : v \in PlainChars }
\* style: [b, r, q] q in {"d","s","td","ts"}
Alphabet(st) == IF st.r THEN RawItems \cup WordItems ELSE IF st.b THEN CookedItems \cup WordItems ELSE CookedItems \cup UItems \cup WordItems
QuoteChar(st) == IF st.q \in {"d", "td"} THEN DQ ELSE SQ
Triple(st) == st.q \in {"td", "ts"}
ItemText(it) == CASE it.k = "c" -> <<it.v>>
                  [] it.k = "w" -> Words[it.v]
                  [] it.k = "s" -> <<BS, it.v>>
                  [] it.k = "x" -> <<BS, 120>> \o Hex2(it.v)
                  [] it.k = "o" -> <<BS>> \o Oct3(it.v)
                  [] it.k = "u" -> <<BS, 117>> \o Hex4(it.v)
                  [] it.k = "U" -> <<BS, 85, 48, 48, 48>> \o <<HexDigit(it.v \div 65536)>> \o Hex4(it.v % 65536)
ItemValue(it, bytes) == CASE it.k = "c" -> (IF bytes THEN Utf8(it.v) ELSE <<it.v>>)
                          [] it.k = "s" -> <<SimpleEsc(it.v)>>
                          [] it.k = "w" -> Words[it.v]
                          [] OTHER -> <<it.v>>
RECURSIVE Cat(_,_)
Cat(s, f) == IF s = <<>> THEN <<>> ELSE (IF f = "t" THEN ItemText(s[1]) ELSE IF f = "vb" THEN ItemValue(s[1], TRUE) ELSE ItemValue(s[1], FALSE)) \o Cat(Tail(s), f)
Quote(st) == IF Triple(st) THEN <<QuoteChar(st), QuoteChar(st), QuoteChar(st)>> ELSE <<QuoteChar(st)>>
Text(st, its) == (IF st.b THEN <<98>> ELSE <<>>) \o (IF st.r THEN <<114>> ELSE <<>>) \o Quote(st) \o Cat(its, "t") \o Quote(st)
Value(st, its) == IF st.b THEN Bytes(Cat(its, "vb")) ELSE Str(Cat(its, "v"))
IsPlain(its, j, c) == j >= 1 /\ j <= Len(its) /\ its[j] = C(c)
Valid(st, its) == \A j \in 1..Len(its) :
   LET it == its[j] IN it.k = "c" =>
     /\ (it.v = QuoteChar(st) => Triple(st) /\ j > 1 /\ j < Len(its) /\ ~IsPlain(its, j - 1, it.v) /\ ~IsPlain(its, j + 1, it.v))
     /\ (it.v \in {LF, CR} => Triple(st))          \* a line break (LF, CR, CR LF) may stand in a triple-quoted literal only, and is kept as written
     /\ (it.v = BS => st.r /\ j < Len(its) /\ (its[j + 1].k = "w" \/ (its[j + 1].k = "c" /\ its[j + 1].v \notin {DQ, SQ, BS})))
Mk5(st, its) == [style |-> st, items |-> its]
Init == /\ style \in STYLES /\ items = <<>> /\ valid = TRUE /\ text = Text(style, <<>>) /\ exp = Value(style, <<>>)
Next == /\ Len(items) < LEN /\ \E it \in Alphabet(style) : items' = Append(items, it)
        /\ style' = style /\ valid' = Valid(style, items') /\ text' = Text(style, items') /\ exp' = Value(style, items')
Spec == Init /\ [][Next]_vars
DecodeAgrees == valid => DecodeLiteral(text) = exp
\* encoding then decoding returns the original: the value never depends on the chosen escape form
\* a literal has no length limit, and its value is the concatenation of its items' values: items that do not interact with their
\* neighbours (no quote, backslash or line break written plainly) can be repeated any number of times -- the harness replays such
\* states repeated to 600 and 5000 characters
Free(its) == \A j \in 1..Len(its) : its[j].k = "c" => its[j].v \notin {DQ, SQ, BS, LF, CR}
Homomorphic == (valid /\ Free(items)) => /\ Valid(style, items \o items)
                                         /\ Value(style, items \o items).v = exp.v \o exp.v
                                         /\ Text(style, items \o items) = SubSeq(text, 1, Len(text) - Len(Quote(style))) \o Cat(items, "t") \o Quote(style)
FormIndependent == valid => \A j \in 1..Len(items) :
     (items[j].k \in {"x", "o"} /\ ~style.b /\ ~style.r /\ items[j].v \notin {BS, DQ, SQ, LF})
        => Value(style, [items EXCEPT ![j] = C(items[j].v)]) = exp
=============================================================================
