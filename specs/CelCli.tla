---------------------------- MODULE CelCli ----------------------------
(* The command line interface (C20) as a function from (flags, expression, --arg bindings, stdin documents) to
   (stdout lines, exit status).

     -n EXPR      : one evaluation with the --arg bindings only.  stdout = the JSON serialisation of the value, status 0;
                    with -b: no output line is required, status 0 / 1 for true / false, 2 for any other value or an error.
     NDJSON mode  : ProcessDoc(k) for each stdin line k, in order:
                      line_k   = JSON of Eval(expr, doc_k)          (depends on doc_k only; an evaluation error prints null)
                      status_k = with -b: 0 / 1 for true / false; otherwise 0
                                 (a non-boolean under -b: the statement's "2 for any other value" read per document, or 0 as for a run
                                  without -b -- both readings are admitted, nothing else is: the status is a pair <<lo, hi>>)
                      a line that is not JSON: status_k = 3 (and no output line)
                    exit status = the worst (maximum) per-document status.
     -s           : all of stdin is one document.
   A document is a CelJson document; the expression is a CelEval AST in which the document is the variable "jq". *)
EXTENDS CelJson
NotJson == [j |-> "notjson"]
IsJson(d) == d.j # "notjson"
StatusIndef == 99
\* value (or Err / Indef) of the expression on one document, with the --arg bindings
Result(expr, args, d) == Eval(expr, << <<"jq", ToCel(d)>> >> \o args)
\* the output line of one document: the JSON document printed, or "none" when nothing is printed
NoLine == [j |-> "noline"]
LineOf(expr, args, d) == IF ~IsJson(d) THEN NoLine
                         ELSE LET v == Result(expr, args, d) IN IF IsErr(v) THEN JNull ELSE IF IsIndef(v) THEN [j |-> "indef"] ELSE Encode(v)
DocStatusNB(expr, args, d, b, nb) == IF ~IsJson(d) THEN 3
                               ELSE IF ~b THEN 0
                               ELSE LET v == Result(expr, args, d) IN IF IsTrue(v) THEN 0 ELSE IF IsFalse(v) THEN 1 ELSE IF IsIndef(v) THEN StatusIndef ELSE nb    \* an error or a non-boolean
DocStatus(expr, args, d, b) == DocStatusNB(expr, args, d, b, 0)
RECURSIVE Lines(_,_,_), WorstNB(_,_,_,_,_)
Lines(expr, args, docs) == IF docs = <<>> THEN <<>> ELSE <<LineOf(expr, args, docs[1])>> \o Lines(expr, args, Tail(docs))
WorstNB(expr, args, docs, b, nb) == IF docs = <<>> THEN 0 ELSE Max2(DocStatusNB(expr, args, docs[1], b, nb), WorstNB(expr, args, Tail(docs), b, nb))
\* the admitted exit statuses <<lo, hi>> (equal unless some document gives a non-boolean under -b)
Worst(expr, args, docs, b) == <<WorstNB(expr, args, docs, b, 0), WorstNB(expr, args, docs, b, 2)>>
StatusOK(st, got) == StatusIndef \in {st[1], st[2]} \/ got \in {st[1], st[2]}
\* -n mode
NullInputLine(expr, args, b) == LET v == Eval(expr, args) IN IF b THEN NoLine ELSE IF IsErr(v) THEN NoLine ELSE IF IsIndef(v) THEN [j |-> "indef"] ELSE Encode(v)
NullInputStatus(expr, args, b) == LET v == Eval(expr, args) IN
     IF IsIndef(v) THEN StatusIndef ELSE IF IsErr(v) THEN 2
     ELSE IF ~b THEN (IF Encode(v).j = "indef" THEN StatusIndef ELSE 0)        \* a value without a JSON form (a type): nothing is prescribed
     ELSE IF IsTrue(v) THEN 0 ELSE IF IsFalse(v) THEN 1 ELSE 2
=============================================================================
