---------------------------- MODULE C7nLib ----------------------------
(* The Cloud Custodian helper functions (C17), specified from their documented meaning -- no Python set, fnmatch,
   ipaddress or packaging.version involved.  Strings are code point sequences, lists are CEL list values. *)
EXTENDS CelEval

\* ---- sets of list elements (elements are CEL strings or ints)
Member(l, x) == \E j \in 1..Len(l.v) : Eq(l.v[j], x)
Intersect(a, b) == Bool(\E j \in 1..Len(a.v) : Member(b, a.v[j]))
Difference(a, b) == Bool(\E j \in 1..Len(a.v) : ~Member(b, a.v[j]))
UniqueSize(a) == IntV(FromInt(Cardinality({ j \in 1..Len(a.v) : \A k \in 1..(j - 1) : ~Eq(a.v[k], a.v[j]) })))

\* ---- normalize: trim blanks, lower-case (ASCII letters)
IsBlank(c) == c \in {32, 9, 10, 13}
Lower(c) == IF c >= 65 /\ c <= 90 THEN c + 32 ELSE c
RECURSIVE TrimL(_), TrimR(_)
TrimL(s) == IF s # <<>> /\ IsBlank(s[1]) THEN TrimL(Tail(s)) ELSE s
TrimR(s) == IF s # <<>> /\ IsBlank(s[Len(s)]) THEN TrimR(SubSeq(s, 1, Len(s) - 1)) ELSE s
Normalize(s) == Str([j \in 1..Len(TrimR(TrimL(s.v))) |-> Lower(TrimR(TrimL(s.v))[j])])

\* ---- glob: shell pattern matching.  * any run, ? any one character, [abc] one of, [!abc] none of; a [ without ] is itself
ClosePos(p) == \* index of the ] closing a bracket that opens at p[1] = "[", or 0  (a ] right after [ or [! is a member)
  LET start == IF Len(p) >= 2 /\ p[2] = 33 THEN 3 ELSE 2
      cands == { k \in (start + 1)..Len(p) : p[k] = 93 }
  IN IF cands = {} THEN 0 ELSE CHOOSE k \in cands : \A k2 \in cands : k <= k2
RECURSIVE Glob(_,_)
Glob(t, p) ==
  IF p = <<>> THEN t = <<>>
  ELSE IF p[1] = 42 THEN Glob(t, Tail(p)) \/ (t # <<>> /\ Glob(Tail(t), p))
  ELSE IF t = <<>> THEN FALSE
  ELSE IF p[1] = 63 THEN Glob(Tail(t), Tail(p))
  ELSE IF p[1] = 91 /\ ClosePos(p) # 0 THEN
       LET c == ClosePos(p)
           neg == p[2] = 33
           members == { p[k] : k \in (IF neg THEN 3 ELSE 2)..(c - 1) }
       IN ((t[1] \in members) # neg) /\ Glob(Tail(t), SubSeq(p, c + 1, Len(p)))
  ELSE t[1] = p[1] /\ Glob(Tail(t), Tail(p))

\* ---- IPv4: an address is <<o1, o2, o3, o4>>, a network [a |-> address, len |-> 0..32] with the host bits zero
MaskOctet(o, bits) == (o \div (2 ^ (8 - bits))) * (2 ^ (8 - bits))        \* keep the leading `bits` bits of an octet
Masked(a, len) == [k \in 1..4 |-> IF len >= 8 * k THEN a[k] ELSE IF len <= 8 * (k - 1) THEN 0 ELSE MaskOctet(a[k], len - 8 * (k - 1))]
NetContainsAddr(n, a) == Masked(a, n.len) = n.a
NetContainsNet(n, x) == n.len <= x.len /\ Masked(x.a, n.len) = n.a
RECURSIVE NatText(_)
NatText(n) == IF n < 10 THEN <<48 + n>> ELSE NatText(n \div 10) \o <<48 + (n % 10)>>
OctetText(o) == NatText(o)
AddrText(a) == OctetText(a[1]) \o <<46>> \o OctetText(a[2]) \o <<46>> \o OctetText(a[3]) \o <<46>> \o OctetText(a[4])
NetText(n) == AddrText(n.a) \o <<47>> \o OctetText(n.len)

\* ---- versions: dotted numeric components, compared numerically with missing components counting as zero
RECURSIVE VerCmp(_,_)
VerCmp(a, b) == IF a = <<>> /\ b = <<>> THEN 0
                ELSE LET x == IF a = <<>> THEN 0 ELSE a[1]  y == IF b = <<>> THEN 0 ELSE b[1] IN
                     IF x < y THEN -1 ELSE IF x > y THEN 1 ELSE VerCmp(IF a = <<>> THEN a ELSE Tail(a), IF b = <<>> THEN b ELSE Tail(b))
RECURSIVE VerText(_)
VerText(a) == IF Len(a) = 1 THEN OctetText(a[1]) ELSE OctetText(a[1]) \o <<46>> \o VerText(Tail(a))

\* ---- tags: a list of maps {"Key": k, "Value": v}
KeyS == Str(<<75, 101, 121>>)
ValueS == Str(<<86, 97, 108, 117, 101>>)
Tag(k, v) == Map(<< <<KeyS, Str(k)>>, <<ValueS, Str(v)>> >>)
RECURSIVE KeyOf(_,_)
KeyOf(tags, k) == IF tags = <<>> THEN Null ELSE IF MapGet(tags[1], KeyS) = Str(k) THEN MapGet(tags[1], ValueS) ELSE KeyOf(Tail(tags), k)
LastIndex(s, c) == IF \E j \in 1..Len(s) : s[j] = c THEN CHOOSE j \in 1..Len(s) : s[j] = c /\ \A k \in (j + 1)..Len(s) : s[k] # c ELSE 0
FirstIndex(s, c) == IF \E j \in 1..Len(s) : s[j] = c THEN CHOOSE j \in 1..Len(s) : s[j] = c /\ \A k \in 1..(j - 1) : s[k] # c ELSE 0
\* "message:action@date": split at the LAST ':' and, in what follows, at the FIRST '@'; date = YYYY-MM-DD (midnight UTC)
MessageS == Str(<<109, 101, 115, 115, 97, 103, 101>>)
ActionS == Str(<<97, 99, 116, 105, 111, 110>>)
ActionDateS == Str(<<97, 99, 116, 105, 111, 110, 95, 100, 97, 116, 101>>)
DateOnly(s) == Len(s) = 10 /\ AllDigits(SubSeq(s, 1, 4)) /\ s[5] = 45 /\ AllDigits(SubSeq(s, 6, 7)) /\ s[8] = 45 /\ AllDigits(SubSeq(s, 9, 10))
MarkedKey(tags, k) ==
  LET v == KeyOf(tags, k) IN
  IF v = Null THEN Null
  ELSE LET c == LastIndex(v.v, 58) IN
       IF c = 0 THEN Null
       ELSE LET msg == SubSeq(v.v, 1, c - 1)  rest == TrimR(TrimL(SubSeq(v.v, c + 1, Len(v.v))))  a == FirstIndex(rest, 64) IN
            IF a = 0 THEN Null
            ELSE LET act == SubSeq(rest, 1, a - 1)  date == SubSeq(rest, a + 1, Len(rest)) IN
                 IF ~DateOnly(date) THEN Indef
                 ELSE LET y == Num(SubSeq(date, 1, 4)) mo == Num(SubSeq(date, 6, 7)) d == Num(SubSeq(date, 9, 10)) IN
                      IF mo < 1 \/ mo > 12 \/ d < 1 \/ d > DaysInMonth(y, mo) \/ y < 1 THEN Indef
                      ELSE Map(<< <<MessageS, Str(msg)>>, <<ActionS, Str(act)>>, <<ActionDateS, Ts(Join(DaysFromCivil(y, mo, d), 0, 0))>> >>)

\* ---- ARN: arn:partition:service:region:account-id:resource-id | ...:resource-type/resource-id | ...:resource-type:resource-id
RECURSIVE SplitOn(_,_,_)
SplitOn(s, c, cur) == IF s = <<>> THEN <<cur>> ELSE IF s[1] = c THEN <<cur>> \o SplitOn(Tail(s), c, <<>>) ELSE SplitOn(Tail(s), c, Append(cur, s[1]))
ArnFields5 == <<"partition", "service", "region", "account-id", "resource-id">>
ArnFields6 == <<"partition", "service", "region", "account-id", "resource-type", "resource-id">>
ArnSplit(arn, field) ==
  LET parts == SplitOn(arn, 58, <<>>) IN
  IF parts[1] # <<97, 114, 110>> THEN Indef          \* not an ARN, another number of fields, an unknown field name: the statement is silent
  ELSE LET fs == Tail(parts)
           names == IF Len(fs) = 5 THEN ArnFields5 ELSE IF Len(fs) = 6 THEN ArnFields6 ELSE <<>>
       IN IF names = <<>> THEN Indef
          ELSE IF \E j \in 1..Len(names) : names[j] = field THEN Str(fs[CHOOSE j \in 1..Len(names) : names[j] = field]) ELSE Indef

\* ---- the filter context: installed for one evaluation, visible to the functions during it, cleared afterwards on every path
\*      (a state machine: c7n in {"none"} \cup filters)
=============================================================================
