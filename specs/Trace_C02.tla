---------------------------- MODULE Trace_C02 ----------------------------
(* Code -> spec: randomly generated (non-linear, deep) logical programs evaluated by the implementation;
   each event [prog, out] must satisfy out = Ev(prog) unless Ev(prog) = "I". *)
EXTENDS CelLogic, TLC, Json, IOUtils
Trace == ndJsonDeserialize(IOEnv.TRACE_FILE)
VARIABLE i
EventOK(e) == LET x == Ev(e.prog) IN x = "I" \/ x = e.out
Init == i = 1 /\ TLCSet(1, <<>>) /\ TLCSet(2, 0)
Next == /\ i <= Len(Trace) /\ i' = i + 1
        /\ IF EventOK(Trace[i]) THEN (IF Ev(Trace[i].prog) = "I" THEN TLCSet(2, TLCGet(2) + 1) ELSE TRUE)
           ELSE TLCSet(1, Append(TLCGet(1), <<i, Ev(Trace[i].prog)>>))
Post == /\ PrintT(<<"REJECTED", TLCGet(1)>>)
        /\ PrintT(<<"CONSUMED", TLCGet("stats").diameter - 1, Len(Trace), TLCGet(2)>>)
=============================================================================
