---------------------------- MODULE CelSyntax ----------------------------
(* CEL concrete syntax (C06), written from the language definition's grammar:

     Expr    = Or ["?" Or ":" Expr]                      lowest, right associative
     Or      = [Or "||"] And                             left associative
     And     = [And "&&"] Rel
     Rel     = [Rel relop] Add          relop: < <= > >= == != in
     Add     = [Add ("+" | "-")] Mul
     Mul     = [Mul ("*" | "/" | "%")] Unary
     Unary   = Member | "!" Unary | "-" Unary
     Member  = Primary | Member "." IDENT ["(" [Args] ")"] | Member "[" Expr "]" | Member "{" [Fields] "}"
     Primary = ["."] IDENT ["(" [Args] ")"] | "(" Expr ")" | "[" [Args] "]" | "{" [MapInits] "}" | LITERAL

   A token is a record [k, s]:  k = "id" (identifier), "lit" (literal, including true/false/null), "p" (punctuation,
   operator, or the keyword in).   An AST node is a record with field k:
     id n | lit n | un op x | bin op l r | cond c a b | sel x f | idx x i | mcall x f args | call f args
     | dotid n | dotcall f args | list args | map args(<<k, v>>) | obj x args(<<f, v>>)
   Parse is a precedence-climbing parser for exactly this grammar; Render inserts only the parentheses the
   precedence table requires; Full parenthesises every operator application. *)
EXTENDS Integers, Sequences, TLC

P(s) == [k |-> "p", s |-> s]
Id(s) == [k |-> "id", s |-> s]
Lit(s) == [k |-> "lit", s |-> s]
RelOps == {"<", "<=", ">", ">=", "==", "!=", "in"}
AddOps == {"+", "-"}
MulOps == {"*", "/", "%"}
BinOps == {"||", "&&"} \cup RelOps \cup AddOps \cup MulOps
BinPrec(op) == CASE op = "||" -> 2 [] op = "&&" -> 3 [] op \in RelOps -> 4 [] op \in AddOps -> 5 [] op \in MulOps -> 6
\* precedence of an AST node: the lowest-binding construct at its root
Prec(t) == CASE t.k = "cond" -> 1 [] t.k = "bin" -> BinPrec(t.op) [] t.k = "un" -> 7 [] OTHER -> 8

Par(s) == <<P("(")>> \o s \o <<P(")")>>
RECURSIVE Render(_,_), RenderArgs(_), RenderPairs(_,_), Full(_), FullArgs(_), FullPairs(_,_)
\* comma separated expressions
NumLits == {"1", "42", "1u", "1.5", "0x1F"}
IsNumLit(x) == x.k = "lit" /\ x.n \in NumLits
RenderArgs(as) == IF as = <<>> THEN <<>> ELSE Render(as[1], 1) \o (IF Len(as) = 1 THEN <<>> ELSE <<P(",")>> \o RenderArgs(Tail(as)))
\* pairs: kind "map" (expr : expr) or "obj" (IDENT : expr)
RenderPairs(ps, kind) == IF ps = <<>> THEN <<>> ELSE
     (IF kind = "map" THEN Render(ps[1][1], 1) ELSE <<Id(ps[1][1])>>) \o <<P(":")>> \o Render(ps[1][2], 1)
     \o (IF Len(ps) = 1 THEN <<>> ELSE <<P(",")>> \o RenderPairs(Tail(ps), kind))
Render(t, p) == LET body ==
    CASE t.k = "id" -> <<Id(t.n)>>
      [] t.k = "lit" -> <<Lit(t.n)>>
      [] t.k = "un" -> <<P(t.op)>> \o Render(t.x, 7)
      [] t.k = "bin" -> Render(t.l, BinPrec(t.op)) \o <<P(t.op)>> \o Render(t.r, BinPrec(t.op) + 1)
      [] t.k = "cond" -> Render(t.c, 2) \o <<P("?")>> \o Render(t.a, 2) \o <<P(":")>> \o Render(t.b, 1)
      \* (a numeric literal cannot stand directly before ".": "1.f" would be read as the number "1." -- it is parenthesised as a receiver)
      [] t.k = "sel" -> (IF IsNumLit(t.x) THEN <<P("("), Lit(t.x.n), P(")")>> ELSE Render(t.x, 8)) \o <<P("."), Id(t.f)>>
      [] t.k = "idx" -> Render(t.x, 8) \o <<P("[")>> \o Render(t.i, 1) \o <<P("]")>>
      [] t.k = "mcall" -> (IF IsNumLit(t.x) THEN <<P("("), Lit(t.x.n), P(")")>> ELSE Render(t.x, 8)) \o <<P("."), Id(t.f), P("(")>> \o RenderArgs(t.args) \o <<P(")")>>
      [] t.k = "call" -> <<Id(t.f), P("(")>> \o RenderArgs(t.args) \o <<P(")")>>
      [] t.k = "dotid" -> <<P("."), Id(t.n)>>
      [] t.k = "dotcall" -> <<P("."), Id(t.f), P("(")>> \o RenderArgs(t.args) \o <<P(")")>>
      [] t.k = "list" -> <<P("[")>> \o RenderArgs(t.args) \o <<P("]")>>
      [] t.k = "map" -> <<P("{")>> \o RenderPairs(t.args, "map") \o <<P("}")>>
      [] t.k = "obj" -> Render(t.x, 8) \o <<P("{")>> \o RenderPairs(t.args, "obj") \o <<P("}")>>
  IN IF Prec(t) < p THEN Par(body) ELSE body
FullArgs(as) == IF as = <<>> THEN <<>> ELSE Full(as[1]) \o (IF Len(as) = 1 THEN <<>> ELSE <<P(",")>> \o FullArgs(Tail(as)))
FullPairs(ps, kind) == IF ps = <<>> THEN <<>> ELSE
     (IF kind = "map" THEN Full(ps[1][1]) ELSE <<Id(ps[1][1])>>) \o <<P(":")>> \o Full(ps[1][2])
     \o (IF Len(ps) = 1 THEN <<>> ELSE <<P(",")>> \o FullPairs(Tail(ps), kind))
Full(t) ==
    CASE t.k = "id" -> <<Id(t.n)>>
      [] t.k = "lit" -> <<Lit(t.n)>>
      [] t.k = "un" -> Par(<<P(t.op)>> \o Full(t.x))
      [] t.k = "bin" -> Par(Full(t.l) \o <<P(t.op)>> \o Full(t.r))
      [] t.k = "cond" -> Par(Full(t.c) \o <<P("?")>> \o Full(t.a) \o <<P(":")>> \o Full(t.b))
      [] t.k = "sel" -> Par(Full(t.x)) \o <<P("."), Id(t.f)>>
      [] t.k = "idx" -> Par(Full(t.x)) \o <<P("[")>> \o Full(t.i) \o <<P("]")>>
      [] t.k = "mcall" -> Par(Full(t.x)) \o <<P("."), Id(t.f), P("(")>> \o FullArgs(t.args) \o <<P(")")>>
      [] t.k = "call" -> <<Id(t.f), P("(")>> \o FullArgs(t.args) \o <<P(")")>>
      [] t.k = "dotid" -> <<P("."), Id(t.n)>>
      [] t.k = "dotcall" -> <<P("."), Id(t.f), P("(")>> \o FullArgs(t.args) \o <<P(")")>>
      [] t.k = "list" -> <<P("[")>> \o FullArgs(t.args) \o <<P("]")>>
      [] t.k = "map" -> <<P("{")>> \o FullPairs(t.args, "map") \o <<P("}")>>
      [] t.k = "obj" -> Par(Full(t.x)) \o <<P("{")>> \o FullPairs(t.args, "obj") \o <<P("}")>>

----------------------------------------------------------------------------
(* the parser: every function returns [ok, t, i] with i the index of the next unread token *)
Fail == [ok |-> FALSE, t |-> <<>>, i |-> 0]
Ok(t, i) == [ok |-> TRUE, t |-> t, i |-> i]
End == P("$")
Tok(s, i) == IF i <= Len(s) THEN s[i] ELSE End
IsP(s, i, x) == Tok(s, i) = P(x)
RECURSIVE PExpr(_,_), PBin(_,_,_), PBinRest(_,_,_,_), PUnary(_,_), PMember(_,_), PPost(_,_,_), PPrimary(_,_),
          PArgs(_,_,_,_), PPairs(_,_,_,_,_)
\* Args: expressions separated by commas up to (not including) the closing token `close`; acc is the list so far
PArgs(s, i, close, acc) ==
   IF acc = <<>> /\ IsP(s, i, close) THEN Ok(<<>>, i)
   ELSE LET e == PExpr(s, i) IN
        IF ~e.ok THEN Fail
        ELSE IF IsP(s, e.i, ",") THEN PArgs(s, e.i + 1, close, Append(acc, e.t))
        ELSE IF IsP(s, e.i, close) THEN Ok(Append(acc, e.t), e.i) ELSE Fail
PPairs(s, i, close, kind, acc) ==
   IF acc = <<>> /\ IsP(s, i, close) THEN Ok(<<>>, i)
   ELSE LET key == IF kind = "map" THEN PExpr(s, i)
                   ELSE IF Tok(s, i).k = "id" THEN Ok(Tok(s, i).s, i + 1) ELSE Fail IN
        IF ~key.ok \/ ~IsP(s, key.i, ":") THEN Fail
        ELSE LET v == PExpr(s, key.i + 1) IN
             IF ~v.ok THEN Fail
             ELSE IF IsP(s, v.i, ",") THEN PPairs(s, v.i + 1, close, kind, Append(acc, <<key.t, v.t>>))
             ELSE IF IsP(s, v.i, close) THEN Ok(Append(acc, <<key.t, v.t>>), v.i) ELSE Fail
PPrimary(s, i) ==
   LET t == Tok(s, i) IN
   IF t.k = "lit" THEN Ok([k |-> "lit", n |-> t.s], i + 1)
   ELSE IF t.k = "id" THEN
        IF IsP(s, i + 1, "(") THEN LET a == PArgs(s, i + 2, ")", <<>>) IN
             IF a.ok THEN Ok([k |-> "call", f |-> t.s, args |-> a.t], a.i + 1) ELSE Fail
        ELSE Ok([k |-> "id", n |-> t.s], i + 1)
   ELSE IF t = P(".") /\ Tok(s, i + 1).k = "id" THEN
        IF IsP(s, i + 2, "(") THEN LET a == PArgs(s, i + 3, ")", <<>>) IN
             IF a.ok THEN Ok([k |-> "dotcall", f |-> Tok(s, i + 1).s, args |-> a.t], a.i + 1) ELSE Fail
        ELSE Ok([k |-> "dotid", n |-> Tok(s, i + 1).s], i + 2)
   ELSE IF t = P("(") THEN LET e == PExpr(s, i + 1) IN IF e.ok /\ IsP(s, e.i, ")") THEN Ok(e.t, e.i + 1) ELSE Fail
   ELSE IF t = P("[") THEN LET a == PArgs(s, i + 1, "]", <<>>) IN IF a.ok THEN Ok([k |-> "list", args |-> a.t], a.i + 1) ELSE Fail
   ELSE IF t = P("{") THEN LET a == PPairs(s, i + 1, "}", "map", <<>>) IN IF a.ok THEN Ok([k |-> "map", args |-> a.t], a.i + 1) ELSE Fail
   ELSE Fail
\* postfix loop: x followed by any number of .f  .f(args)  [i]  {fields}
PPost(s, x, i) ==
   IF IsP(s, i, ".") /\ Tok(s, i + 1).k = "id" THEN
        IF IsP(s, i + 2, "(") THEN LET a == PArgs(s, i + 3, ")", <<>>) IN
             IF a.ok THEN PPost(s, [k |-> "mcall", x |-> x, f |-> Tok(s, i + 1).s, args |-> a.t], a.i + 1) ELSE Fail
        ELSE PPost(s, [k |-> "sel", x |-> x, f |-> Tok(s, i + 1).s], i + 2)
   ELSE IF IsP(s, i, "[") THEN LET e == PExpr(s, i + 1) IN
        IF e.ok /\ IsP(s, e.i, "]") THEN PPost(s, [k |-> "idx", x |-> x, i |-> e.t], e.i + 1) ELSE Fail
   ELSE IF IsP(s, i, "{") THEN LET a == PPairs(s, i + 1, "}", "obj", <<>>) IN
        IF a.ok THEN PPost(s, [k |-> "obj", x |-> x, args |-> a.t], a.i + 1) ELSE Fail
   ELSE Ok(x, i)
PMember(s, i) == LET p == PPrimary(s, i) IN IF p.ok THEN PPost(s, p.t, p.i) ELSE Fail
PUnary(s, i) == IF IsP(s, i, "!") \/ IsP(s, i, "-") THEN
                     LET r == PUnary(s, i + 1) IN IF r.ok THEN Ok([k |-> "un", op |-> Tok(s, i).s, x |-> r.t], r.i) ELSE Fail
                ELSE PMember(s, i)
\* level p in 2..6: a left-associative chain of level-(p+1) operands
PBin(s, i, p) == IF p = 7 THEN PUnary(s, i) ELSE LET l == PBin(s, i, p + 1) IN IF l.ok THEN PBinRest(s, l.t, l.i, p) ELSE Fail
PBinRest(s, lt, i, p) ==
   LET t == Tok(s, i) IN
   IF t.k = "p" /\ t.s \in BinOps /\ BinPrec(t.s) = p
   THEN LET r == PBin(s, i + 1, p + 1) IN IF r.ok THEN PBinRest(s, [k |-> "bin", op |-> t.s, l |-> lt, r |-> r.t], r.i, p) ELSE Fail
   ELSE Ok(lt, i)
PExpr(s, i) == LET c == PBin(s, i, 2) IN
   IF ~c.ok THEN Fail
   ELSE IF IsP(s, c.i, "?") THEN
        LET a == PBin(s, c.i + 1, 2) IN
        IF a.ok /\ IsP(s, a.i, ":") THEN
             LET b == PExpr(s, a.i + 1) IN IF b.ok THEN Ok([k |-> "cond", c |-> c.t, a |-> a.t, b |-> b.t], b.i) ELSE Fail
        ELSE Fail
   ELSE c
NoParse == [k |-> "fail"]
Parse(s) == LET r == PExpr(s, 1) IN IF r.ok /\ r.i = Len(s) + 1 THEN r.t ELSE NoParse
Accepts(s) == Parse(s) # NoParse

RECURSIVE Size(_), SizeArgs(_), SizePairs(_,_)
SizeArgs(as) == IF as = <<>> THEN 0 ELSE Size(as[1]) + SizeArgs(Tail(as))
SizePairs(ps, kind) == IF ps = <<>> THEN 0 ELSE (IF kind = "map" THEN Size(ps[1][1]) ELSE 0) + Size(ps[1][2]) + SizePairs(Tail(ps), kind)
Size(t) == CASE t.k \in {"id", "lit", "dotid"} -> 1
             [] t.k = "un" -> 1 + Size(t.x)
             [] t.k = "bin" -> 1 + Size(t.l) + Size(t.r)
             [] t.k = "cond" -> 1 + Size(t.c) + Size(t.a) + Size(t.b)
             [] t.k = "sel" -> 1 + Size(t.x)
             [] t.k = "idx" -> 1 + Size(t.x) + Size(t.i)
             [] t.k = "mcall" -> 1 + Size(t.x) + SizeArgs(t.args)
             [] t.k \in {"call", "dotcall", "list"} -> 1 + SizeArgs(t.args)
             [] t.k = "map" -> 1 + SizePairs(t.args, "map")
             [] t.k = "obj" -> 1 + Size(t.x) + SizePairs(t.args, "obj")
=============================================================================
