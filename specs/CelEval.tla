---------------------------- MODULE CelEval ----------------------------
(* Reference evaluator for a fragment of CEL, written from the language definition (C09, C13, C12-C14 reuse it).
   Eval(e, env) is total: every AST yields a value, Err, or Indef ("the definition quoted by the properties does not
   fix this", e.g. ill-typed operands, rounding of inexact doubles).

   AST (records with field k):
     lit v | var n | list xs | map es(<<k, v>>) | un op x | bin op l r | cond c a b | idx x i | sel x f | has x f
     | call f args | mcall x f args | macro m x v body        (m in map filter all exists exists_one)
   env: sequence of <<name, value>>, innermost binding first.                                                *)
EXTENDS CelConv, CelRegex, FiniteSets

Lit(v) == [k |-> "lit", v |-> v]
Var(n) == [k |-> "var", n |-> n]
MsgLit(n, fs) == [k |-> "obj", n |-> n, fs |-> fs]
\* identifier spellings that are ordinary CEL identifiers (not reserved by CEL) but mean something to a host language or to an
\* implementation's internals: an identifier is a name and nothing else, so each must behave exactly like "x"
HostileIdents == {"class", "lambda", "None", "True", "def", "not", "is", "pass", "from", "with", "yield", "async", "try", "global", "raise", "assert",
                  "identifiers", "functions", "package", "clone", "get", "resolve_variable", "nested_activation", "__class__", "__dict__",
                  "activation", "base_activation", "celpy", "result", "CEL", "self", "_", "operator", "ex_1"}
Bin(op, l, r) == [k |-> "bin", op |-> op, l |-> l, r |-> r]
Un(op, x) == [k |-> "un", op |-> op, x |-> x]
CondE(c, a, b) == [k |-> "cond", c |-> c, a |-> a, b |-> b]
Idx(x, i) == [k |-> "idx", x |-> x, i |-> i]
Sel(x, f) == [k |-> "sel", x |-> x, f |-> f]
Has(x, f) == [k |-> "has", x |-> x, f |-> f]
Call(f, args) == [k |-> "call", f |-> f, args |-> args]
MCall(x, f, args) == [k |-> "mcall", x |-> x, f |-> f, args |-> args]
Macro(m, x, v, body) == [k |-> "macro", m |-> m, x |-> x, v |-> v, body |-> body]
ListE(xs) == [k |-> "list", xs |-> xs]
MapE(es) == [k |-> "map", es |-> es]

RECURSIVE Lookup(_,_)
Lookup(env, n) == IF env = <<>> THEN Err ELSE IF env[1][1] = n THEN env[1][2] ELSE Lookup(Tail(env), n)

\* ---- logic on values (same algebra as CelLogic, carried on values)
IsBoolV(v) == v.t = "bool"
IsTrue(v) == v.t = "bool" /\ v.v
IsFalse(v) == v.t = "bool" /\ ~v.v
NonBool(v) == v.t \notin {"bool", "err", "indef"}
AndV(a, b) == IF IsFalse(a) \/ IsFalse(b) THEN Bool(FALSE)
              ELSE IF IsIndef(a) \/ IsIndef(b) THEN Indef
              ELSE IF IsTrue(a) /\ IsTrue(b) THEN Bool(TRUE)
              ELSE IF NonBool(a) /\ NonBool(b) THEN Err
              ELSE IF NonBool(a) \/ NonBool(b) THEN Indef
              ELSE Err
OrV(a, b) == IF IsTrue(a) \/ IsTrue(b) THEN Bool(TRUE)
             ELSE IF IsIndef(a) \/ IsIndef(b) THEN Indef
             ELSE IF IsFalse(a) /\ IsFalse(b) THEN Bool(FALSE)
             ELSE IF NonBool(a) /\ NonBool(b) THEN Err
             ELSE IF NonBool(a) \/ NonBool(b) THEN Indef
             ELSE Err
NotV(a) == IF IsBoolV(a) THEN Bool(~a.v) ELSE IF IsErr(a) THEN Err ELSE Indef

\* ---- time: timestamps are microseconds since the epoch within years 0001..9999, durations within +-315,576,000,000 s
MegaB == FromInt(1000000)
TsMin == Mul(Neg(Add(Mul(FromInt(62135), MegaB), FromInt(596800))), MegaB)              \* 0001-01-01T00:00:00Z = -62135596800 s
TsMax == Add(Mul(Add(Mul(FromInt(253402), MegaB), FromInt(300799)), MegaB), FromInt(999999))  \* 9999-12-31T23:59:59.999999Z
DurLim == Mul(Mul(FromInt(315576), MegaB), MegaB)                                         \* 315,576,000,000 s in microseconds
TsRes(x) == IF Cmp(x, TsMin) >= 0 /\ Cmp(x, TsMax) <= 0 THEN Ts(x) ELSE Err
DurRes(x) == IF Cmp(x, Neg(DurLim)) >= 0 /\ Cmp(x, DurLim) <= 0 THEN Dur(x) ELSE Err
\* ---- arithmetic and concatenation
IsKey(v) == v.t \in {"int", "uint", "bool", "string"}
Arith(op, a, b) ==
  IF IsErr(a) \/ IsErr(b) THEN Err
  ELSE IF IsIndef(a) \/ IsIndef(b) THEN Indef
  ELSE IF a.t = "timestamp" /\ b.t = "duration" THEN (IF op \in {"+", "-"} THEN TsRes(Exact(op, BigOf(a), BigOf(b))) ELSE Indef)
  ELSE IF a.t = "duration" /\ b.t = "timestamp" THEN (IF op = "+" THEN TsRes(Add(BigOf(a), BigOf(b))) ELSE Indef)
  ELSE IF a.t # b.t THEN Indef
  ELSE CASE a.t = "int" -> IntOp(64, op, BigOf(a), BigOf(b))
         [] a.t = "uint" -> UintOp(64, op, BigOf(a), BigOf(b))
         [] a.t = "double" -> (IF op = "%" THEN Indef ELSE DOp(op, a, b))
         [] a.t \in {"string", "bytes", "list"} -> (IF op = "+" THEN [t |-> a.t, v |-> a.v \o b.v] ELSE Indef)
         [] a.t = "duration" -> (IF op \in {"+", "-"} THEN DurRes(Exact(op, BigOf(a), BigOf(b))) ELSE Indef)
         [] a.t = "timestamp" -> (IF op = "-" THEN DurRes(Sub(BigOf(a), BigOf(b))) ELSE Indef)
         [] OTHER -> Indef
Negate(a) == CASE a.t = "int" -> IntNeg(64, BigOf(a)) [] a.t = "uint" -> Err [] a.t = "double" -> DNeg(a)
               [] a.t = "err" -> Err [] OTHER -> Indef
Relation(op, a, b) ==
  IF IsErr(a) \/ IsErr(b) THEN Err
  ELSE IF IsIndef(a) \/ IsIndef(b) THEN Indef
  ELSE IF ~SameShape(a, b) THEN Indef
  ELSE IF op \in {"==", "!="} THEN Rel(op, a, b)
  ELSE IF Ordered(a) /\ Ordered(b) THEN Rel(op, a, b) ELSE Indef
MapHasKey(m, key) == \E j \in 1..Len(m.v) : Eq(m.v[j][1], key)
MapGet(m, key) == IF MapHasKey(m, key) THEN m.v[CHOOSE j \in 1..Len(m.v) : Eq(m.v[j][1], key)][2] ELSE Err
InOp(x, c) ==
  IF IsErr(x) \/ IsErr(c) THEN Err
  ELSE IF IsIndef(x) \/ IsIndef(c) THEN Indef
  ELSE IF c.t = "list" THEN (IF \A j \in 1..Len(c.v) : c.v[j].t = x.t THEN Bool(\E j \in 1..Len(c.v) : Eq(c.v[j], x)) ELSE
                             IF \E j \in 1..Len(c.v) : Eq(c.v[j], x) THEN Bool(TRUE) ELSE Indef)
  ELSE IF c.t = "map" THEN (IF \A j \in 1..Len(c.v) : c.v[j][1].t = x.t THEN Bool(MapHasKey(c, x)) ELSE
                            IF MapHasKey(c, x) THEN Bool(TRUE) ELSE Indef)
  ELSE Indef
Index(x, i) ==
  IF IsErr(x) \/ IsErr(i) THEN Err
  ELSE IF IsIndef(x) \/ IsIndef(i) THEN Indef
  ELSE IF x.t = "list" THEN
       (IF i.t = "int" THEN (IF ~i.neg /\ Cmp(BigOf(i), FromInt(Len(x.v))) < 0 THEN x.v[ToInt(BigOf(i)) + 1] ELSE Err) ELSE Indef)
  ELSE IF x.t = "map" THEN (IF \A j \in 1..Len(x.v) : x.v[j][1].t = i.t THEN MapGet(x, i)       \* a missing key is an error
                            ELSE IF MapHasKey(x, i) THEN MapGet(x, i) ELSE Indef)                \* key of another type: ill-typed lookup
  ELSE Indef
Select(x, f) == IF IsErr(x) THEN Err ELSE IF IsIndef(x) THEN Indef ELSE IF x.t = "map" THEN MapGet(x, Str(f)) ELSE Indef
HasField(x, f) == IF IsErr(x) THEN Err ELSE IF IsIndef(x) THEN Indef ELSE IF x.t = "map" THEN Bool(MapHasKey(x, Str(f))) ELSE Indef

\* ---- strings (code point sequences)
IsPrefix(p, s) == Len(p) <= Len(s) /\ SubSeq(s, 1, Len(p)) = p
IsSuffix(p, s) == Len(p) <= Len(s) /\ SubSeq(s, Len(s) - Len(p) + 1, Len(s)) = p
Contains(s, p) == \E j \in 0..(Len(s) - Len(p)) : SubSeq(s, j + 1, j + Len(p)) = p
SizeOf(v) == IF v.t \in {"string", "bytes", "list", "map"} THEN IntV(FromInt(Len(v.v))) ELSE IF IsErr(v) THEN Err ELSE Indef
StrFn(f, s, a) ==
  IF IsErr(s) \/ IsErr(a) THEN Err
  ELSE IF s.t # "string" \/ a.t # "string" THEN Indef
  ELSE CASE f = "contains" -> Bool(Contains(s.v, a.v))
         [] f = "startsWith" -> Bool(IsPrefix(a.v, s.v))
         [] f = "endsWith" -> Bool(IsSuffix(a.v, s.v))
         [] OTHER -> Indef

\* matches: a search for the pattern anywhere in the text; an invalid pattern is an evaluation error (CelRegex)
MatchFn(s, p) ==
  IF IsErr(s) \/ IsErr(p) THEN Err
  ELSE IF IsIndef(s) \/ IsIndef(p) THEN Indef
  ELSE IF s.t # "string" \/ p.t # "string" THEN Indef
  ELSE LET m == RxMatches(s.v, p.v) IN
       CASE m = "t" -> Bool(TRUE) [] m = "f" -> Bool(FALSE) [] m = "bad" -> Err [] OTHER -> Indef

AnyErr(s) == \E j \in 1..Len(s) : IsErr(s[j])
AnyIndef(s) == \E j \in 1..Len(s) : IsIndef(s[j])
RECURSIVE FoldAndV(_), FoldOrV(_), SelectTrue(_,_)
FoldAndV(s) == IF s = <<>> THEN Bool(TRUE) ELSE AndV(s[1], FoldAndV(Tail(s)))
FoldOrV(s) == IF s = <<>> THEN Bool(FALSE) ELSE OrV(s[1], FoldOrV(Tail(s)))
SelectTrue(xs, ps) == IF xs = <<>> THEN <<>> ELSE (IF ps[1].v THEN <<xs[1]>> ELSE <<>>) \o SelectTrue(Tail(xs), Tail(ps))
DupKeys(es) == \E i, j \in 1..Len(es) : i < j /\ es[i][1].t = es[j][1].t /\ Eq(es[i][1], es[j][1])

AnyErrSeq(s) == \E j \in 1..Len(s) : s[j].t \in {"err", "indef"}
\* ---- host functions (C14): the functions an application supplies when it builds a program, as the model specifies them
\*      hecho(args...) = the list of its arguments;  hzero() = 7;  herr / hval / htyp: return a CELEvalError / raise ValueError /
\*      raise TypeError (all three: an evaluation error of that sub-expression);  "size" is replaced by the constant -1 when the
\*      environment carries the pseudo-binding __override_size;  any other unknown name is unbound: an evaluation error.
HostNames == {"hecho", "hzero", "herr", "hval", "htyp"}
HostApply(f, args) ==
  IF \E j \in 1..Len(args) : IsErr(args[j]) THEN Err     \* calls are strict: the function is invoked "with the evaluated CEL arguments", and an
                                                         \* argument whose evaluation failed has none -- the error is the call's outcome
  ELSE IF AnyErrSeq(args) THEN Indef
  ELSE CASE f = "hecho" -> List(args)
         [] f = "hzero" -> (IF args = <<>> THEN IntV(FromInt(7)) ELSE Indef)
         [] OTHER -> Err
SizeOverridden(env) == Lookup(env, "__override_size") = Bool(TRUE)
Unbound(f) == f \in {"hnone", "unknown_fn"}

RECURSIVE Eval(_,_)
EvalSeq(xs, env) == [j \in 1..Len(xs) |-> Eval(xs[j], env)]
Eval(e, env) ==
  CASE e.k = "lit" -> e.v
    [] e.k = "var" -> Lookup(env, e.n)
    [] e.k = "list" -> (LET vs == EvalSeq(e.xs, env) IN IF AnyErr(vs) THEN Err ELSE IF AnyIndef(vs) THEN Indef ELSE List(vs))
    [] e.k = "map" -> (LET ks == [j \in 1..Len(e.es) |-> Eval(e.es[j][1], env)]
                          vs == [j \in 1..Len(e.es) |-> Eval(e.es[j][2], env)]
                          es == [j \in 1..Len(e.es) |-> <<ks[j], vs[j]>>]
                      IN IF AnyErr(ks) \/ AnyErr(vs) THEN Err ELSE IF AnyIndef(ks) \/ AnyIndef(vs) THEN Indef
                         ELSE IF \E j \in 1..Len(ks) : ~IsKey(ks[j]) THEN Indef            \* key of a non-key type: the statement is silent
                         ELSE IF \E j \in 1..Len(ks) : ks[j].t # ks[1].t THEN Indef           \* heterogeneous key types: not well-typed
                         ELSE IF DupKeys(es) THEN Err ELSE Map(es))
    [] e.k = "un" -> (IF e.op = "!" THEN NotV(Eval(e.x, env)) ELSE Negate(Eval(e.x, env)))
    [] e.k = "bin" -> (LET a == Eval(e.l, env) b == Eval(e.r, env) IN
                       CASE e.op = "&&" -> AndV(a, b)
                         [] e.op = "||" -> OrV(a, b)
                         [] e.op \in BinOps -> Arith(e.op, a, b)
                         [] e.op \in RelOps -> Relation(e.op, a, b)
                         [] e.op = "in" -> InOp(a, b)
                         [] OTHER -> Indef)
    [] e.k = "cond" -> (LET c == Eval(e.c, env) IN
                        IF IsTrue(c) THEN Eval(e.a, env) ELSE IF IsFalse(c) THEN Eval(e.b, env) ELSE IF IsIndef(c) THEN Indef ELSE Err)
    [] e.k = "idx" -> Index(Eval(e.x, env), Eval(e.i, env))
    [] e.k = "sel" -> Select(Eval(e.x, env), e.f)
    [] e.k = "has" -> HasField(Eval(e.x, env), e.f)
    [] e.k = "call" -> (CASE e.f \in HostNames -> HostApply(e.f, EvalSeq(e.args, env))
                          [] e.f \in ConvNames /\ Len(e.args) = 1 -> Conv(e.f, Eval(e.args[1], env))
                          [] Unbound(e.f) -> Err
                          [] e.f = "size" /\ SizeOverridden(env) -> (IF AnyErrSeq(EvalSeq(e.args, env)) THEN Indef ELSE IntV(FromInt(-1)))
                          [] e.f = "size" /\ Len(e.args) = 1 -> SizeOf(Eval(e.args[1], env))
                          [] e.f = "dyn" /\ Len(e.args) = 1 -> Eval(e.args[1], env)          \* dyn() only changes the static type
                          [] e.f = "matches" /\ Len(e.args) = 2 -> MatchFn(Eval(e.args[1], env), Eval(e.args[2], env))
                          [] e.f = "type" /\ Len(e.args) = 1 -> (LET v == Eval(e.args[1], env) IN IF IsErr(v) THEN Err ELSE IF IsIndef(v) THEN Indef ELSE Type(TypeName(v)))
                          [] OTHER -> Indef)
    [] e.k = "mcall" -> (LET x == Eval(e.x, env) IN
                         CASE e.f \in HostNames -> HostApply(e.f, <<x>> \o EvalSeq(e.args, env))
                           [] e.f \in Accessors /\ Len(e.args) <= 1 ->
                                (IF IsErr(x) THEN Err ELSE IF x.t # "timestamp" THEN Indef
                                 ELSE IF e.args = <<>> THEN IntV(FromInt(Accessor(e.f, BigOf(x), 0)))
                                 ELSE LET z == Eval(e.args[1], env) IN
                                      IF IsErr(z) THEN Err ELSE IF z.t # "string" THEN Indef
                                      ELSE LET off == ZoneOffset(z.v, BigOf(x)) IN
                                           IF off = NoOffset THEN Indef
                                           ELSE IF Fields(BigOf(x), off).y \notin 1..9999 THEN Indef      \* the local date leaves years 0001..9999
                                           ELSE IntV(FromInt(Accessor(e.f, BigOf(x), off))))
                           [] Unbound(e.f) -> Err
                           [] e.f = "size" /\ SizeOverridden(env) -> (IF AnyErrSeq(<<x>> \o EvalSeq(e.args, env)) THEN Indef ELSE IntV(FromInt(-1)))
                           [] e.f = "size" /\ Len(e.args) = 0 -> SizeOf(x)
                           [] e.f \in {"contains", "startsWith", "endsWith"} /\ Len(e.args) = 1 -> StrFn(e.f, x, Eval(e.args[1], env))
                           [] e.f = "matches" /\ Len(e.args) = 1 -> MatchFn(x, Eval(e.args[1], env))
                           [] OTHER -> Indef)
    \* a message literal Name{f: e, ...}: messages are not modelled, but a repeated field label is an error whatever the message is
    [] e.k = "obj" -> (IF \E i, j \in 1..Len(e.fs) : i < j /\ e.fs[i][1] = e.fs[j][1] THEN Err ELSE Indef)
    [] e.k = "macro" ->
        (LET c == Eval(e.x, env) IN
         IF IsErr(c) THEN Err ELSE IF IsIndef(c) THEN Indef
         ELSE IF c.t \notin {"list", "map"} THEN Indef
         ELSE LET xs == IF c.t = "list" THEN c.v ELSE [j \in 1..Len(c.v) |-> c.v[j][1]]
                  rs == [j \in 1..Len(xs) |-> Eval(e.body, <<<<e.v, xs[j]>>>> \o env)]
              IN CASE e.m = "all" -> FoldAndV(rs)
                   [] e.m = "exists" -> FoldOrV(rs)
                   [] e.m = "map" -> (IF AnyErr(rs) THEN Err ELSE IF AnyIndef(rs) THEN Indef ELSE List(rs))
                   [] e.m = "filter" -> (IF AnyErr(rs) THEN Err ELSE IF AnyIndef(rs) \/ (\E j \in 1..Len(rs) : ~IsBoolV(rs[j])) THEN Indef
                                         ELSE List(SelectTrue(xs, rs)))
                   [] e.m = "exists_one" -> (IF AnyErr(rs) THEN Err ELSE IF AnyIndef(rs) \/ (\E j \in 1..Len(rs) : ~IsBoolV(rs[j])) THEN Indef
                                             ELSE Bool(Cardinality({j \in 1..Len(rs) : rs[j].v}) = 1)))
\* ---- the calls the host functions receive: <<name, argument values>> in evaluation order, once per call site reached.
\*      Both operands of && and || count as reached (CEL evaluates them commutatively); only the selected branch of ?: is.
RECURSIVE Calls(_,_), CallsSeq(_,_), BodyCalls(_,_,_)
CallsSeq(xs, env) == IF xs = <<>> THEN <<>> ELSE Calls(xs[1], env) \o CallsSeq(Tail(xs), env)
BodyCalls(e, env, xs) == IF xs = <<>> THEN <<>> ELSE Calls(e.body, <<<<e.v, xs[1]>>>> \o env) \o BodyCalls(e, env, Tail(xs))
IsHostCall(f, env) == f \in HostNames \/ (f = "size" /\ SizeOverridden(env))
Calls(e, env) ==
  CASE e.k \in {"lit", "var"} -> <<>>
    [] e.k = "list" -> CallsSeq(e.xs, env)
    [] e.k = "map" -> CallsSeq([j \in 1..(2 * Len(e.es)) |-> e.es[(j + 1) \div 2][IF j % 2 = 1 THEN 1 ELSE 2]], env)
    [] e.k = "un" -> Calls(e.x, env)
    [] e.k = "bin" -> Calls(e.l, env) \o Calls(e.r, env)
    [] e.k = "cond" -> Calls(e.c, env) \o (LET c == Eval(e.c, env) IN IF IsTrue(c) THEN Calls(e.a, env) ELSE IF IsFalse(c) THEN Calls(e.b, env) ELSE <<>>)
    [] e.k = "idx" -> Calls(e.x, env) \o Calls(e.i, env)
    [] e.k \in {"sel", "has"} -> Calls(e.x, env)
    [] e.k = "call" -> CallsSeq(e.args, env) \o (IF IsHostCall(e.f, env) /\ ~AnyErr(EvalSeq(e.args, env)) THEN << <<e.f, EvalSeq(e.args, env)>> >> ELSE <<>>)
    [] e.k = "mcall" -> Calls(e.x, env) \o CallsSeq(e.args, env)
                        \o (IF IsHostCall(e.f, env) /\ ~AnyErr(<<Eval(e.x, env)>> \o EvalSeq(e.args, env)) THEN << <<e.f, <<Eval(e.x, env)>> \o EvalSeq(e.args, env)>> >> ELSE <<>>)
    [] e.k = "macro" -> Calls(e.x, env) \o (LET c == Eval(e.x, env) IN IF c.t # "list" THEN <<>> ELSE BodyCalls(e, env, c.v))
=============================================================================
