---------------------------- MODULE CelNames ----------------------------
(* CEL name resolution (C12), from the language definition.
   A name is a sequence of components (each a code point sequence).  bs: sequence of <<name, value>> bindings.
   A reference a.b.c in an environment with package p.q is looked up as p.q.a.b.c, then p.a.b.c, then a.b.c.
   At a level, the binding whose name is the LONGEST prefix of the (prefixed) reference is taken and the remaining
   components are applied as field selections; a level "binds a" when some bound name covers at least the first
   component of the reference.  The first level that binds a wins. *)
EXTENDS CelEval
IsBound(bs, n) == \E j \in 1..Len(bs) : bs[j][1] = n
ValueOf(bs, n) == bs[CHOOSE j \in 1..Len(bs) : bs[j][1] = n][2]
Prefix(s, k) == SubSeq(s, 1, k)
BoundPrefixLen(bs, full) == IF \E k \in 1..Len(full) : IsBound(bs, Prefix(full, k))
                            THEN CHOOSE k \in 1..Len(full) : IsBound(bs, Prefix(full, k)) /\ \A k2 \in (k + 1)..Len(full) : ~IsBound(bs, Prefix(full, k2))
                            ELSE 0
RECURSIVE SelectPath(_,_)
SelectPath(v, comps) == IF comps = <<>> THEN v ELSE SelectPath(Select(v, comps[1]), Tail(comps))
NoMatch == [t |-> "nomatch"]
ResolveAt(bs, lvl, ref) == LET full == lvl \o ref  k == BoundPrefixLen(bs, full) IN
                           IF k <= Len(lvl) THEN NoMatch ELSE SelectPath(ValueOf(bs, Prefix(full, k)), SubSeq(full, k + 1, Len(full)))
RECURSIVE ResolveFrom(_,_,_)
ResolveFrom(bs, lvl, ref) == LET r == ResolveAt(bs, lvl, ref) IN
                             IF r # NoMatch THEN r ELSE IF lvl = <<>> THEN Err ELSE ResolveFrom(bs, Prefix(lvl, Len(lvl) - 1), ref)
Resolve(bs, pkg, ref) == ResolveFrom(bs, pkg, ref)
=============================================================================
