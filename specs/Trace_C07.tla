---------------------------- MODULE Trace_C07 ----------------------------
(* Code -> spec: literal texts (random Unicode strings / byte strings encoded by the harness's own encoder in every
   style and escape form; random integers in every spelling) evaluated by the implementation; the value must be the
   one the specification's decoder assigns to that text. *)
EXTENDS CelLiteral, TLC, Json, IOUtils
Trace == ndJsonDeserialize(IOEnv.TRACE_FILE)
VARIABLE i
Expected(e) == IF e.kind = "int" THEN ParseInt(e.text) ELSE DecodeLiteral(e.text)
Observed(e) == CASE e.out.t \in {"string", "bytes"} -> [t |-> e.out.t, v |-> e.out.v]
                 [] e.out.t \in {"int", "uint"} -> [t |-> e.out.t, neg |-> e.out.neg, m |-> e.out.m]
                 [] OTHER -> [t |-> e.out.t]
EventOK(e) == Expected(e) = Indef \/ Expected(e) = Observed(e)
Init == i = 1 /\ TLCSet(1, <<>>) /\ TLCSet(2, 0)
Next == /\ i <= Len(Trace) /\ i' = i + 1
        /\ IF EventOK(Trace[i]) THEN (IF Expected(Trace[i]) = Indef THEN TLCSet(2, TLCGet(2) + 1) ELSE TRUE)
           ELSE TLCSet(1, Append(TLCGet(1), <<i, Expected(Trace[i])>>))
Post == /\ PrintT(<<"REJECTED", TLCGet(1)>>)
        /\ PrintT(<<"CONSUMED", TLCGet("stats").diameter - 1, Len(Trace), TLCGet(2)>>)
=============================================================================
