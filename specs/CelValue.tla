---------------------------- MODULE CelValue ----------------------------
(* The CEL value universe, with type tags, as TLA+ records (TLC has 32-bit integers, no reals, atomic strings):
     int, uint      [t, neg, m]           m = BigInt magnitude (limbs, base 2^15)
     double         [t, c, neg, m, e]     class nan/inf/zero/fin; fin = (-1)^neg * m * 2^e, m odd
     bool           [t, v]                null [t]
     string, bytes  [t, v]                v = sequence of code points / octets
     list           [t, v]                v = sequence of values
     map            [t, v]                v = sequence of <<key, value>> in source order (keys distinct)
     timestamp      [t, neg, m]           microseconds since 1970-01-01T00:00:00Z (an instant; zones are spellings)
     duration       [t, neg, m]           microseconds
     type           [t, v]                v = type name
     err            [t]                   evaluation error        indef [t]: not fixed by the specification
   Equality and ordering are defined from the CEL language definition (C08). *)
EXTENDS CelArith

Bool(b) == [t |-> "bool", v |-> b]
Null == [t |-> "null"]
Str(s) == [t |-> "string", v |-> s]
Bytes(s) == [t |-> "bytes", v |-> s]
List(s) == [t |-> "list", v |-> s]
Map(s) == [t |-> "map", v |-> s]
Ts(x) == [t |-> "timestamp", neg |-> x.neg, m |-> x.m]
Dur(x) == [t |-> "duration", neg |-> x.neg, m |-> x.m]
Type(n) == [t |-> "type", v |-> n]
TypeName(v) == IF v.t = "null" THEN "null_type" ELSE v.t
IsErr(v) == v.t = "err"
IsIndef(v) == v.t = "indef"
Numeric == {"int", "uint", "timestamp", "duration"}

\* lexicographic comparison of two integer sequences: -1, 0, 1
RECURSIVE SeqCmp(_,_)
SeqCmp(a, b) == IF a = <<>> /\ b = <<>> THEN 0 ELSE IF a = <<>> THEN -1 ELSE IF b = <<>> THEN 1
                ELSE IF a[1] < b[1] THEN -1 ELSE IF a[1] > b[1] THEN 1 ELSE SeqCmp(Tail(a), Tail(b))

\* doubles (no NaN): compare exact values
DMagCmp(x, y) == \* both fin, compare m*2^e magnitudes
   LET e == IF x.e < y.e THEN x.e ELSE y.e IN MCmp(MShl(x.m, x.e - e), MShl(y.m, y.e - e))
DRank(x) == CASE x.c = "inf" -> (IF x.neg THEN -2 ELSE 2) [] x.c = "zero" -> 0 [] x.c = "fin" -> (IF x.neg THEN -1 ELSE 1)
DCmp(x, y) == IF DRank(x) # DRank(y) THEN (IF DRank(x) < DRank(y) THEN -1 ELSE 1)
              ELSE IF x.c # "fin" THEN 0
              ELSE IF x.neg THEN DMagCmp(y, x) ELSE DMagCmp(x, y)

\* three-way comparison for the ordered types; both arguments of the same type
Cmp3(a, b) == CASE a.t \in Numeric -> Cmp(BigOf(a), BigOf(b))
                [] a.t = "double" -> DCmp(a, b)
                [] a.t = "bool" -> (IF a.v = b.v THEN 0 ELSE IF b.v THEN -1 ELSE 1)
                [] a.t \in {"string", "bytes"} -> SeqCmp(a.v, b.v)
Ordered(v) == v.t \in Numeric \cup {"bool", "string", "bytes"} \/ (v.t = "double" /\ v.c # "nan")

RECURSIVE Eq(_,_)
\* Eq is TRUE / FALSE for two values of the same type
Eq(a, b) ==
  IF a.t # b.t THEN FALSE ELSE
  CASE a.t = "null" -> TRUE
    [] a.t = "double" -> (a.c # "nan" /\ b.c # "nan" /\ DCmp(a, b) = 0)
    [] a.t \in Numeric \cup {"bool", "string", "bytes"} -> Cmp3(a, b) = 0
    [] a.t = "type" -> a.v = b.v
    [] a.t = "list" -> Len(a.v) = Len(b.v) /\ \A i \in 1..Len(a.v) : Eq(a.v[i], b.v[i])
    [] a.t = "map" -> /\ Len(a.v) = Len(b.v)
                      /\ \A i \in 1..Len(a.v) : \E j \in 1..Len(b.v) : Eq(a.v[i][1], b.v[j][1]) /\ Eq(a.v[i][2], b.v[j][2])
    [] OTHER -> FALSE
IsNaN(v) == v.t = "double" /\ v.c = "nan"
Lt(a, b) == ~IsNaN(a) /\ ~IsNaN(b) /\ Cmp3(a, b) < 0            \* every ordering with a NaN is false (IEEE-754)

\* homogeneous: every pair of corresponding leaves has the same type, so Eq is definite (CEL leaves [1] == ["a"] open)
RECURSIVE SameShape(_,_)
SameShape(a, b) ==
  /\ a.t = b.t
  /\ (a.t = "list" => \A i \in 1..Len(a.v) : \A j \in 1..Len(b.v) : SameShape(a.v[i], b.v[j]))
  /\ (a.t = "map" => \A i \in 1..Len(a.v) : \A j \in 1..Len(b.v) : SameShape(a.v[i][1], b.v[j][1]) /\ SameShape(a.v[i][2], b.v[j][2]))

\* the six relations as CEL values
Rel(op, a, b) ==
  CASE op = "==" -> Bool(Eq(a, b))
    [] op = "!=" -> Bool(~Eq(a, b))
    [] op = "<" -> Bool(Lt(a, b))
    [] op = "<=" -> Bool(Lt(a, b) \/ Eq(a, b))
    [] op = ">" -> Bool(Lt(b, a))
    [] op = ">=" -> Bool(Lt(b, a) \/ Eq(a, b))
RelOps == {"==", "!=", "<", "<=", ">", ">="}
=============================================================================
