---------------------------- MODULE MC_XREPL ----------------------------
(* Model of the interactive loop: every command sequence up to DEPTH over two names, a few expressions (values of three
   types, references to the activation, an evaluation error, a syntax error, a missing expression), show, the empty line and the
   quit spellings.  `hist` records the behaviour (command, output, activation after it) so that each maximal behaviour can be
   replayed into the real CEL_REPL. *)
EXTENDS CelRepl, TLC
CONSTANT DEPTH
VARIABLE hist
vars == <<st, last, alive, out, hist>>
I(n) == IntV(FromInt(n))
VA == Var("a")
VB == Var("b")
Names == {"a", "b"}
SetExprs == { Lit(I(1)), Lit(Str(<<115>>)), Bin("+", VA, Lit(I(1))), VB, ListE(<<VA>>), Bin("/", Lit(I(1)), Lit(I(0))), Bin("+", VA, VB), BadSyntax, NoExpr }
Exprs == { VA, Bin("+", VA, VB), Call("size", <<VA>>), Bin("/", Lit(I(1)), Lit(I(0))), BadSyntax, CondE(Lit(Bool(TRUE)), VB, VA) }
Cmds == { [c |-> "set", n |-> n, e |-> e] : n \in Names, e \in SetExprs } \cup { [c |-> "expr", e |-> e] : e \in Exprs } \cup { [c |-> "show"] }
QuitWords == {"quit", "exit", "bye", "EOF"}
Init == ReplInit /\ hist = <<>>
Rec(cmd) == hist' = Append(hist, [cmd |-> cmd, out |-> out', st |-> st'])
Next == /\ Len(hist) < DEPTH
        /\ \/ \E cmd \in Cmds : Do(cmd) /\ Rec(cmd)
           \/ Empty /\ Rec([c |-> "empty"])
           \/ \E w \in QuitWords : Quit(w) /\ Rec([c |-> "quit", w |-> w])
Spec == Init /\ [][Next]_vars
\* an evaluation in the loop is the evaluation of that expression with the activation as bindings, whatever came before
Functional == \A i \in 1..Len(hist) : hist[i].cmd.c \in {"set", "expr"} =>
                 LET before == IF i = 1 THEN <<>> ELSE hist[i - 1].st IN hist[i].out = Effect(hist[i].cmd, before).out
ShowIsPure == \A i \in 1..Len(hist) : hist[i].cmd.c \in {"show", "expr", "quit"} => SameSt(hist[i].st, IF i = 1 THEN <<>> ELSE hist[i - 1].st)
=============================================================================
