---------------------------- MODULE MC_C04 ----------------------------
(* C04 model.  MODE "typed": grammar-directed, type-agnostic programs -- every operator, member form, built-in function,
   method and macro applied to every value kind (including an error-valued operand), well-typed or not.
   The specification's evaluator is total: exp = Eval(prog) is a value, Err or Indef for every one of them, and the
   state machine has no action producing "a Python exception".
   MODE "tokens": every token sequence up to LEN over a small alphabet; acc = whether the grammar accepts it. *)
EXTENDS CelEval, TLC
CONSTANTS MODE, LEN
VARIABLES prog, exp, toks, acc
vars == <<prog, exp, toks, acc>>
Syn == INSTANCE CelSyntax
I(n) == IntV(FromInt(n))
S(s) == Str(s)
ErrLeaf == Bin("/", Lit(I(1)), Lit(I(0)))
Leaves == { Lit(I(1)), Lit(UintV(FromInt(1))), Lit(Fin(FALSE, <<3>>, -1)), Lit(Bool(TRUE)), Lit(Null), Lit(S(<<97>>)), Lit(Bytes(<<97>>)),
            Lit(List(<<>>)), Lit(List(<<I(1)>>)), Lit(Map(<< <<S(<<97>>), I(1)>> >>)), Lit(Ts(Z)), Lit(Dur(MegaB)), Lit(Type("int")), ErrLeaf,
            \* boundary values: results that leave the range of their type must be errors, not Python exceptions
            Lit(IntV(IntMax(64))), Lit(IntV(IntMin(64))), Lit(UintV(UintMax(64))), Lit(Ts(TsMax)), Lit(Ts(TsMin)), Lit(Dur(DurLim)),
            \* doubles that have no literal: an infinity and a NaN (as operands, indexes, keys, arguments ...)
            Bin("/", Lit(Fin(FALSE, <<1>>, 0)), Lit(Zero(FALSE))), Bin("/", Lit(Zero(FALSE)), Lit(Zero(FALSE))) }
HostileZones == { <<69,117,114,111,112,101>>, <<65,109,101,114,105,99,97,47,65,114,103,101,110,116,105,110,97>>, <<69,116,99>>, <<69,117,114,111,112,101,47>>, <<47>>, <<46>>, <<46,46>>,
                  <<46,46,47,101,116,99,47,112,97,115,115,119,100>>, <<122,111,110,101,46,116,97,98>>, <<112,111,115,105,120>>, <<32>>, <<0>>, <<85,84,67,0>>, <<43>>, <<43,50,53,58,48,48>>,
                  <<45,48,48,58,54,48>>, <<69,117,114,111,112,101,47,80,97,114,105,115,47>>, <<233>>, <<128049>>, [j \in 1..300 |-> 97] }
                  \* Europe  America/Argentina  Etc  Europe/  /  .  ..  ../etc/passwd  zone.tab  posix  " "  NUL  UTC+NUL  +  +25:00  -00:60  Europe/Paris/  e-acute  non-BMP  300 x a
Few == { Lit(I(1)), Lit(S(<<97>>)) }
X == Var("x")
Fns1 == {"size", "int", "uint", "double", "string", "bytes", "bool", "type", "timestamp", "duration", "dyn", "getFullYear", "matches", "unknown_function"}
Meths0 == {"size", "getFullYear", "getMonth", "getDate", "getDayOfMonth", "getDayOfWeek", "getDayOfYear", "getHours", "getMinutes", "getSeconds", "getMilliseconds", "unknown_method"}
Meths1 == {"contains", "startsWith", "endsWith", "matches", "getFullYear", "getHours", "size"}
AllBin == BinOps \cup RelOps \cup {"in", "&&", "||"}
Roots ==
       { Bin(o, a, b) : o \in AllBin, a \in Leaves, b \in Leaves }
  \cup { Un(o, a) : o \in {"!", "-"}, a \in Leaves }
  \cup { CondE(a, b, c) : a \in Leaves, b \in Few, c \in Few }
  \cup { Idx(a, b) : a \in Leaves, b \in Leaves } \cup { Sel(a, <<97>>) : a \in Leaves } \cup { Has(a, <<97>>) : a \in Leaves }
  \cup { Call(f, <<a>>) : f \in Fns1, a \in Leaves } \cup { Call(f, <<a, b>>) : f \in {"int", "size", "matches", "timestamp"}, a \in Few, b \in Few }
  \cup { Call(f, <<>>) : f \in {"size", "int", "type"} }
  \cup { MCall(a, f, <<>>) : f \in Meths0, a \in Leaves } \cup { MCall(a, f, <<b>>) : f \in Meths1, a \in Leaves, b \in Leaves }
  \cup { Macro(m, a, "x", b) : m \in {"all", "exists", "exists_one", "filter", "map"}, a \in Leaves, b \in {X, Bin(">", X, Lit(I(0))), Lit(Bool(TRUE)), ErrLeaf} }
  \cup { MCall(Lit(List(<<I(1)>>)), m, as) : m \in {"all", "exists", "exists_one", "filter", "map", "reduce", "min"},
                                             as \in {<<>>, <<X>>, <<X, X, X>>, <<X, X, X, X>>, <<Lit(I(1)), X>>, <<Sel(X, <<97>>), X>>} }
  \cup { Call("has", as) : as \in {<<>>, <<X>>, <<Lit(I(1))>>, <<Sel(X, <<97>>), X>>, <<Idx(X, Lit(I(0)))>>} }
  \cup { Call("dyn", as) : as \in {<<>>, <<X, X>>} }
  \* zone names that are not zones: directories and data files of the tz database, paths, blank and very long names
  \cup { MCall(Lit(Ts(Z)), f, <<Lit(S(z))>>) : f \in {"getHours", "getDayOfYear", "getFullYear"}, z \in HostileZones }
  \cup { Var(n) : n \in HostileIdents } \cup { Bin("+", Var(n), Lit(I(1))) : n \in HostileIdents }
  \cup { Macro("map", Lit(List(<<I(1)>>)), n, Var(n)) : n \in HostileIdents } \cup { Sel(Lit(Map(<< <<S(<<97>>), I(1)>> >>)), <<97>>) : n \in {1} }
  \cup { MsgLit(n, fs) : n \in {"M", "google.protobuf.Int32Value", "google.protobuf.Duration"},
                       fs \in { <<>>, << <<"value", Lit(I(1))>> >>, << <<"value", Lit(I(1))>>, <<"value", Lit(I(2))>> >>, << <<"a", Lit(I(1))>>, <<"b", ErrLeaf>>, <<"a", Lit(I(2))>> >>,
                                 << <<"value", ErrLeaf>> >>, << <<"seconds", Lit(S(<<97>>))>> >> } }
  \* the extension macros on lists whose items have no common ordering / no items
  \cup { MCall(l, "min", <<>>) : l \in { Lit(List(<<I(1), S(<<97>>)>>)), Lit(List(<<>>)), Lit(List(<<Null, I(1)>>)), Lit(List(<<List(<<>>), List(<<>>)>>)), Lit(Map(<< <<S(<<97>>), I(1)>> >>)) } }
  \cup { ListE(<<a, b>>) : a \in Leaves, b \in Few } \cup { MapE(<< <<a, b>> >>) : a \in Leaves, b \in Few } \cup { MapE(<< <<b, a>> >>) : a \in Leaves, b \in Few }
\* CEL implementations must support 12 repetitions of each recursive rule (lists, maps, calls, conditionals, selections ...):
\* combinations of three rules nested 12 deep each
RECURSIVE Nest(_,_,_)
Nest(kind, n, x) == IF n = 0 THEN x
                    ELSE CASE kind = "list" -> ListE(<<Nest(kind, n - 1, x)>>)
                           [] kind = "map" -> MapE(<< <<Lit(S(<<97>>)), Nest(kind, n - 1, x)>> >>)
                           [] kind = "dyn" -> Call("dyn", <<Nest(kind, n - 1, x)>>)
                           [] kind = "cond" -> CondE(Lit(Bool(TRUE)), Nest(kind, n - 1, x), Lit(I(0)))
                           [] kind = "neg" -> Un("-", Nest(kind, n - 1, x))
                           [] kind = "add" -> Bin("+", Nest(kind, n - 1, x), Lit(I(1)))
Kinds == {"list", "map", "dyn", "cond", "neg", "add"}
Deep == { Nest(k1, 12, Nest(k2, 12, Nest(k3, 12, Lit(I(1))))) : k1 \in Kinds, k2 \in Kinds, k3 \in {"list", "map", "add"} }
Alphabet == { Syn!Id("a"), Syn!Lit("1"), Syn!Lit("true"), Syn!P("("), Syn!P(")"), Syn!P("["), Syn!P("]"), Syn!P("{"), Syn!P("}"), Syn!P("."), Syn!P(","),
              Syn!P("?"), Syn!P(":"), Syn!P("+"), Syn!P("-"), Syn!P("!"), Syn!P("&&"), Syn!P("=="), Syn!P("in") }
Init == prog = Lit(Null) /\ exp = Null /\ toks = <<>> /\ acc = FALSE
Next == \/ (MODE = "deep" /\ prog = Lit(Null) /\ \E p \in Deep : prog' = p /\ exp' = Indef /\ UNCHANGED <<toks, acc>>)
        \/ (MODE = "typed" /\ prog = Lit(Null) /\ \E p \in Roots : prog' = p /\ exp' = Eval(p, <<>>) /\ UNCHANGED <<toks, acc>>)
        \/ (MODE = "tokens" /\ Len(toks) < LEN /\ \E t \in Alphabet : toks' = Append(toks, t) /\ acc' = Syn!Accepts(toks') /\ UNCHANGED <<prog, exp>>)
Spec == Init /\ [][Next]_vars
\* the evaluator of the specification is total: never anything but a value, an error, or "not fixed"
Total == exp.t \in {"int", "uint", "double", "bool", "null", "string", "bytes", "list", "map", "timestamp", "duration", "type", "err", "indef"}
\* an accepted token sequence re-renders to itself modulo parentheses: Parse(Render(Parse(toks))) = Parse(toks)
Stable == acc => Syn!Parse(Syn!Render(Syn!Parse(toks), 1)) = Syn!Parse(toks)
=============================================================================
