---------------------------- MODULE BigIntSelfCheck ----------------------------
(* The limb algorithms of BigInt, run with a tiny base (B = 4) so that multi-limb carries, borrows and long
   division steps all occur on numbers small enough to compare with TLC's native integers: all pairs in -R..R. *)
EXTENDS Integers, Sequences, TLC
B == 4
LB == 2
INSTANCE BigInt
CONSTANT R
VARIABLES a, b
Init == a \in -R..R /\ b = -R - 1
Next == b = -R - 1 /\ b' \in -R..R /\ a' = a
Sgn(n) == IF n < 0 THEN -1 ELSE 1
NAbs(n) == IF n < 0 THEN -n ELSE n
NTDiv(x,y) == Sgn(x)*Sgn(y)*(NAbs(x) \div NAbs(y))
NTRem(x,y) == Sgn(x)*(NAbs(x) % NAbs(y))
RECURSIVE NBits(_)
NBits(n) == IF n = 0 THEN 0 ELSE 1 + NBits(n \div 2)
Ok == b = -R - 1 \/ LET x == FromInt(a) y == FromInt(b) IN
   /\ ToInt(x) = a
   /\ ToInt(Add(x,y)) = a+b /\ ToInt(Sub(x,y)) = a-b /\ ToInt(Mul(x,y)) = a*b
   /\ Cmp(x,y) = (IF a<b THEN -1 ELSE IF a>b THEN 1 ELSE 0)
   /\ (b # 0 => ToInt(TDiv(x,y)) = NTDiv(a,b) /\ ToInt(TRem(x,y)) = NTRem(a,b))
   /\ Add(x,y) = FromInt(a+b) /\ Mul(x,y) = FromInt(a*b)
   /\ MBits(x.m) = NBits(NAbs(a))
   /\ (b >= 0 /\ b <= 9 => MToNat(MShl(x.m, b)) = NAbs(a) * 2^b /\ MToNat(MShr(x.m, b)) = NAbs(a) \div 2^b)
   /\ (a # 0 => NAbs(a) % 2^MTz(x.m) = 0 /\ (NAbs(a) \div 2^MTz(x.m)) % 2 = 1)
   /\ FromDigits(ToDigits(x.m, 10), 10) = x.m
   /\ (b >= 1 /\ b <= 3 => LET fd == FloorDivModSmall(x, b) IN ToInt(fd[1]) * b + fd[2] = a /\ fd[2] \in 0..(b - 1))
   /\ MToNat(MFromNat(NAbs(a))) = NAbs(a)
=============================================================================
