---------------------------- MODULE C7nXlate ----------------------------
(* Cloud Custodian filter trees and what their CEL translation must mean (C18).

   A filter tree:  [k |-> "prim", i]  (the i-th primitive clause)  |  [k |-> "list" | "and" | "or" | "not", kids]
   Custodian's combinators:  list and `and` = all children hold, `or` = any child holds, `not` = not all children hold.

   The contract for the emitted CEL text (whatever the individual clauses translate to): it parses, and for EVERY truth
   assignment to the atoms (the maximal sub-expressions that are not && || ! ?: or parentheses) its boolean value equals the
   combinators' value computed from the clauses' own values under the same assignment. *)
EXTENDS CelSyntax, FiniteSets

RECURSIVE Truth(_,_)
\* cv: function clause index -> BOOLEAN
Truth(t, cv) == CASE t.k = "prim" -> cv[t.i]
                  [] t.k \in {"list", "and"} -> \A j \in 1..Len(t.kids) : Truth(t.kids[j], cv)
                  [] t.k = "or" -> \E j \in 1..Len(t.kids) : Truth(t.kids[j], cv)
                  [] t.k = "not" -> ~(\A j \in 1..Len(t.kids) : Truth(t.kids[j], cv))
IsLogic(a) == (a.k = "bin" /\ a.op \in {"&&", "||"}) \/ (a.k = "un" /\ a.op = "!") \/ a.k = "cond"
\* the atoms of an AST, as a duplicate-free sequence (left to right)
RECURSIVE AtomsOf(_,_)
AddNew(acc, a) == IF \E j \in 1..Len(acc) : acc[j] = a THEN acc ELSE Append(acc, a)
AtomsOf(a, acc) == IF ~IsLogic(a) THEN AddNew(acc, a)
                   ELSE IF a.k = "bin" THEN AtomsOf(a.r, AtomsOf(a.l, acc))
                   ELSE IF a.k = "un" THEN AtomsOf(a.x, acc)
                   ELSE AtomsOf(a.b, AtomsOf(a.a, AtomsOf(a.c, acc)))
IndexOf(atoms, a) == CHOOSE j \in 1..Len(atoms) : atoms[j] = a
RECURSIVE BoolEval(_,_,_)
\* sigma: function 1..Len(atoms) -> BOOLEAN
BoolEval(a, atoms, sigma) ==
   IF ~IsLogic(a) THEN sigma[IndexOf(atoms, a)]
   ELSE IF a.k = "bin" THEN (IF a.op = "&&" THEN BoolEval(a.l, atoms, sigma) /\ BoolEval(a.r, atoms, sigma) ELSE BoolEval(a.l, atoms, sigma) \/ BoolEval(a.r, atoms, sigma))
   ELSE IF a.k = "un" THEN ~BoolEval(a.x, atoms, sigma)
   ELSE IF BoolEval(a.c, atoms, sigma) THEN BoolEval(a.a, atoms, sigma) ELSE BoolEval(a.b, atoms, sigma)
RECURSIVE AllAtoms(_,_)
AllAtoms(asts, acc) == IF asts = <<>> THEN acc ELSE AllAtoms(Tail(asts), AtomsOf(asts[1], acc))
\* emitted: token sequence of the whole translation; clauses: sequence of token sequences, one per primitive clause
\* the logical skeleton of an AST: atoms replaced by their index (computed once, so each assignment is cheap to evaluate)
RECURSIVE Skel(_,_), SkelEval(_,_)
Skel(a, atoms) == IF ~IsLogic(a) THEN [k |-> "atom", i |-> IndexOf(atoms, a)]
                  ELSE IF a.k = "bin" THEN [k |-> a.op, l |-> Skel(a.l, atoms), r |-> Skel(a.r, atoms)]
                  ELSE IF a.k = "un" THEN [k |-> "!", x |-> Skel(a.x, atoms)]
                  ELSE [k |-> "?", c |-> Skel(a.c, atoms), a |-> Skel(a.a, atoms), b |-> Skel(a.b, atoms)]
SkelEval(s, sigma) == CASE s.k = "atom" -> sigma[s.i]
                        [] s.k = "&&" -> SkelEval(s.l, sigma) /\ SkelEval(s.r, sigma)
                        [] s.k = "||" -> SkelEval(s.l, sigma) \/ SkelEval(s.r, sigma)
                        [] s.k = "!" -> ~SkelEval(s.x, sigma)
                        [] s.k = "?" -> IF SkelEval(s.c, sigma) THEN SkelEval(s.a, sigma) ELSE SkelEval(s.b, sigma)
PreservesParsed(tree, cl, full) ==
   LET atoms == AllAtoms(cl, AtomsOf(full, <<>>))
       sf == Skel(full, atoms)
       sc == [i \in 1..Len(cl) |-> Skel(cl[i], atoms)]
   IN \A sigma \in [1..Len(atoms) -> BOOLEAN] :
         SkelEval(sf, sigma) = Truth(tree, [i \in 1..Len(cl) |-> SkelEval(sc[i], sigma)])
Preserves(tree, clauses, emitted) ==
   LET full == Parse(emitted)
       cl == [i \in 1..Len(clauses) |-> Parse(clauses[i])]
   IN full # NoParse /\ (\A i \in 1..Len(clauses) : cl[i] # NoParse) /\ PreservesParsed(tree, cl, full)
\* why a translation is rejected (for the verdict); every text is parsed once
Verdict(tree, clauses, emitted) ==
   LET full == Parse(emitted)
       cl == [i \in 1..Len(clauses) |-> Parse(clauses[i])]
   IN IF full = NoParse THEN "emitted text does not parse"
      ELSE IF \E i \in 1..Len(clauses) : cl[i] = NoParse THEN "a clause does not parse"
      ELSE IF PreservesParsed(tree, cl, full) THEN "ok" ELSE "truth table differs"

\* ---- a reference translation (every child of a connective parenthesised): shows the contract is satisfiable
RECURSIVE Ref(_,_), JoinKids(_,_,_)
JoinKids(kids, clauses, op) == IF Len(kids) = 1 THEN Par(Ref(kids[1], clauses)) ELSE Par(Ref(kids[1], clauses)) \o <<P(op)>> \o JoinKids(Tail(kids), clauses, op)
Ref(t, clauses) == CASE t.k = "prim" -> clauses[t.i]
                     [] t.k \in {"list", "and"} -> JoinKids(t.kids, clauses, "&&")
                     [] t.k = "or" -> JoinKids(t.kids, clauses, "||")
                     [] t.k = "not" -> <<P("!")>> \o Par(JoinKids(t.kids, clauses, "&&"))
=============================================================================
