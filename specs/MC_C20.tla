---------------------------- MODULE MC_C20 ----------------------------
(* C20 model: expressions of the bool / int / string / list fragment x streams of up to LEN documents over document kinds
   (matching, non-matching, the expression errors on it, not JSON) x -b, and -n evaluations with typed --arg bindings. *)
EXTENDS CelCli, TLC
CONSTANT LEN
VARIABLES mode, expr, docs, flagb, args, lines, status
vars == <<mode, expr, docs, flagb, args, lines, status>>
I(n) == IntV(FromInt(n))
S(s) == Str(s)
JI(n) == [j |-> "int", neg |-> n < 0, m |-> FromInt(n).m]
JS(s) == [j |-> "str", v |-> s]
Obj(a, s) == [j |-> "obj", v |-> << <<<<97>>, JI(a)>>, <<<<115>>, JS(s)>>, <<<<108>>, [j |-> "arr", v |-> <<JI(a), JI(a + 1)>>]>> >>]
\* (the third document kind: a string holding U+2028, U+0085 and a non-ASCII letter)
DocKinds == { Obj(5, <<120>>), Obj(0, <<121>>), Obj(7, <<120, 8232, 121, 133, 233>>), [j |-> "obj", v |-> << <<<<98>>, JI(1)>> >>], NotJson, [j |-> "arr", v |-> <<JI(1)>>] }
Jq == Var("jq")
A == Sel(Jq, <<97>>)
Exprs == { Bin(">", A, Lit(I(1))), A, Bin("+", Sel(Jq, <<115>>), Lit(S(<<33>>))), Call("size", <<Sel(Jq, <<108>>)>>), Idx(Sel(Jq, <<108>>), Lit(I(1))),
           Bin("==", Bin("/", Lit(I(10)), A), Lit(I(2))), Has(Jq, <<97>>), Macro("map", Sel(Jq, <<108>>), "x", Bin("*", Var("x"), Lit(I(2)))),
           Bin("&&", Has(Jq, <<97>>), Bin(">", A, Lit(I(1)))), Jq }
RECURSIVE Streams(_)
Streams(n) == IF n = 0 THEN {<<>>} ELSE LET r == Streams(n - 1) IN r \cup { Append(s, d) : s \in { x \in r : Len(x) = n - 1 }, d \in DocKinds }
\* -n mode: expressions over typed arguments
X == Var("x")
ArgVals == { <<"int", I(5)>>, <<"int", I(-1)>>, <<"int", I(0)>>, <<"uint", UintV(FromInt(7))>>, <<"double", Fin(FALSE, <<3>>, -1)>>, <<"bool", Bool(TRUE)>>, <<"bool", Bool(FALSE)>>,
             <<"string", S(<<104, 105>>)>>, <<"string", S(<<>>)>> }
NExprs == { X, Bin("==", X, X), Un("!", X), Bin("+", X, X), Call("size", <<X>>), Bin(">", X, Lit(I(0))), CondE(X, Lit(I(1)), Lit(I(2))), Call("type", <<X>>), ListE(<<X, X>>), ListE(<<ListE(<<Bin("==", X, X), X>>)>>), MapE(<< <<Lit(S(<<107>>)), ListE(<<Bin("==", X, X)>>)>> >>),
            Bin("/", Lit(I(1)), Lit(I(0))), Lit(Bool(TRUE)), Lit(Bool(FALSE)), Lit(Null), Lit(I(42)) }
Init == mode = "init" /\ expr = Lit(Null) /\ docs = <<>> /\ flagb = FALSE /\ args = <<>> /\ lines = <<>> /\ status = <<0, 0>>
Next == /\ mode = "init"
        /\ \/ (\E e \in Exprs, s \in Streams(LEN), b \in BOOLEAN :
                 mode' = "ndjson" /\ expr' = e /\ docs' = s /\ flagb' = b /\ args' = <<>> /\ lines' = Lines(e, <<>>, s) /\ status' = Worst(e, <<>>, s, b))
           \/ (\E e \in NExprs, a \in ArgVals, b \in BOOLEAN :
                 mode' = "null" /\ expr' = e /\ docs' = <<>> /\ flagb' = b /\ args' = << <<"x", a[2]>> >> /\ lines' = <<NullInputLine(e, args', b)>> /\ status' = <<NullInputStatus(e, args', b), NullInputStatus(e, args', b)>>)
Spec == Init /\ [][Next]_vars
\* the k-th output line depends only on the k-th document
Independent == mode = "ndjson" => \A k \in 1..Len(docs) : lines[k] = Lines(expr, args, <<docs[k]>>)[1]
\* worst status: 3 iff some line is not JSON (when every other status is fixed)
WorstStatus == mode = "ndjson" => /\ ((\E k \in 1..Len(docs) : ~IsJson(docs[k])) /\ StatusIndef \notin {status[1], status[2]} => status = <<3, 3>>)
                                  /\ (status[2] = 0 => \A k \in 1..Len(docs) : DocStatus(expr, args, docs[k], flagb) = 0)
                                  /\ status[1] <= status[2]
BooleanStatus == (mode = "null" /\ flagb /\ status[1] # StatusIndef) => status[1] \in {0, 1, 2} /\ status[1] = status[2]
=============================================================================
