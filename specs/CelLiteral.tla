---------------------------- MODULE CelLiteral ----------------------------
(* CEL literal denotation (C07), from the language definition.  Text is a sequence of code points.

   String / bytes literal  =  [b|B] [r|R] quote body quote,   quote in  "  '  """  '''
     cooked body: a plain character denotes itself (bytes: its UTF-8 encoding); escapes
        \a \b \f \n \r \t \v \\ \" \' \? \`   the usual characters
        \xHH  \XHH      code point HH (bytes: the octet HH)
        \ooo            three octal digits, first 0-3: code point (bytes: octet)
        \uHHHH  \UHHHHHHHH   code point (strings only; not a surrogate, <= 10FFFF)
     raw body: every character, backslash included, denotes itself.
   Integer literal = [-] digits | [-] 0x hexdigits ;  uint = the same followed by u|U ; out of range = error.
   Floating literal = [-] digits . digits [e[+-]digits] etc.: denotes the decimal rational exactly (FloatDenote gives the
   double only when that rational is itself a binary64 value; rounding is out of model).                              *)
EXTENDS CelValue

BS == 92  DQ == 34  SQ == 39  LF == 10  CR == 13
IsOct(c) == c >= 48 /\ c <= 55
IsDigit(c) == c >= 48 /\ c <= 57
IsHex(c) == IsDigit(c) \/ (c >= 97 /\ c <= 102) \/ (c >= 65 /\ c <= 70)
HexVal(c) == IF IsDigit(c) THEN c - 48 ELSE IF c >= 97 THEN c - 87 ELSE c - 55
RECURSIVE HexNum(_,_)
HexNum(s, acc) == IF s = <<>> THEN acc ELSE HexNum(Tail(s), acc * 16 + HexVal(s[1]))
SimpleEsc(c) == CASE c = 97 -> 7 [] c = 98 -> 8 [] c = 102 -> 12 [] c = 110 -> 10 [] c = 114 -> 13 [] c = 116 -> 9 [] c = 118 -> 11
                  [] c = BS -> BS [] c = DQ -> DQ [] c = SQ -> SQ [] c = 63 -> 63 [] c = 96 -> 96 [] OTHER -> -1
\* UTF-8 encoding of one code point
Utf8(c) == IF c < 128 THEN <<c>>
           ELSE IF c < 2048 THEN <<192 + (c \div 64), 128 + (c % 64)>>
           ELSE IF c < 65536 THEN <<224 + (c \div 4096), 128 + ((c \div 64) % 64), 128 + (c % 64)>>
           ELSE <<240 + (c \div 262144), 128 + ((c \div 4096) % 64), 128 + ((c \div 64) % 64), 128 + (c % 64)>>
ValidScalar(c) == c >= 0 /\ c <= 1114111 /\ ~(c >= 55296 /\ c <= 57343)
Bad == <<-1>>      \* marker: not a well-formed literal (the specification says nothing)

\* decode a cooked body; returns the value sequence or Bad.  bytes = TRUE: octets.
RECURSIVE Cooked(_,_,_)
Cooked(s, bytes, acc) ==
  IF s = <<>> THEN acc
  ELSE IF s[1] # BS THEN Cooked(Tail(s), bytes, acc \o (IF bytes THEN Utf8(s[1]) ELSE <<s[1]>>))
  ELSE IF Len(s) < 2 THEN Bad
  ELSE LET c == s[2] IN
    IF SimpleEsc(c) >= 0 THEN Cooked(SubSeq(s, 3, Len(s)), bytes, Append(acc, SimpleEsc(c)))
    ELSE IF c \in {120, 88} THEN
         IF Len(s) >= 4 /\ IsHex(s[3]) /\ IsHex(s[4]) THEN Cooked(SubSeq(s, 5, Len(s)), bytes, Append(acc, HexNum(SubSeq(s, 3, 4), 0))) ELSE Bad
    ELSE IF c = 117 THEN
         IF ~bytes /\ Len(s) >= 6 /\ (\A j \in 3..6 : IsHex(s[j])) /\ ValidScalar(HexNum(SubSeq(s, 3, 6), 0))
         THEN Cooked(SubSeq(s, 7, Len(s)), bytes, Append(acc, HexNum(SubSeq(s, 3, 6), 0))) ELSE Bad
    ELSE IF c = 85 THEN
         IF ~bytes /\ Len(s) >= 10 /\ (\A j \in 3..10 : IsHex(s[j])) /\ s[3] = 48 /\ s[4] = 48 /\ ValidScalar(HexNum(SubSeq(s, 5, 10), 0))
         THEN Cooked(SubSeq(s, 11, Len(s)), bytes, Append(acc, HexNum(SubSeq(s, 5, 10), 0))) ELSE Bad
    ELSE IF c >= 48 /\ c <= 51 THEN
         IF Len(s) >= 4 /\ IsOct(s[3]) /\ IsOct(s[4]) THEN Cooked(SubSeq(s, 5, Len(s)), bytes, Append(acc, (c - 48) * 64 + (s[3] - 48) * 8 + (s[4] - 48))) ELSE Bad
    ELSE Bad
RECURSIVE RawBytes(_)
RawBytes(s) == IF s = <<>> THEN <<>> ELSE Utf8(s[1]) \o RawBytes(Tail(s))

\* whole literal -> CEL value, or Indef when the text is not a well-formed string/bytes literal
DecodeLiteral(t) ==
  LET isB == Len(t) >= 1 /\ t[1] \in {98, 66}
      t1 == IF isB THEN Tail(t) ELSE t
      isR == Len(t1) >= 1 /\ t1[1] \in {114, 82}
      t2 == IF isR THEN Tail(t1) ELSE t1
      triple == Len(t2) >= 6 /\ t2[1] \in {DQ, SQ} /\ t2[2] = t2[1] /\ t2[3] = t2[1]
                 /\ t2[Len(t2)] = t2[1] /\ t2[Len(t2) - 1] = t2[1] /\ t2[Len(t2) - 2] = t2[1]
      short == Len(t2) >= 2 /\ t2[1] \in {DQ, SQ} /\ t2[Len(t2)] = t2[1]
      body == IF triple THEN SubSeq(t2, 4, Len(t2) - 3) ELSE IF short THEN SubSeq(t2, 2, Len(t2) - 1) ELSE <<>>
      val == IF isR THEN (IF isB THEN RawBytes(body) ELSE body) ELSE Cooked(body, isB, <<>>)
  IN IF ~(triple \/ short) \/ val = Bad THEN Indef
     ELSE IF isB THEN Bytes(val) ELSE Str(val)

----------------------------------------------------------------------------
(* numbers *)
DigitsVal(ds, base) == Mk(FALSE, FromDigits(ds, base))
\* [neg, hex, digits (values 0..15), uns] -> value or error
IntDenote(neg, hex, ds, uns) ==
  LET mag == DigitsVal(ds, IF hex THEN 16 ELSE 10)
      x == IF neg THEN Neg(mag) ELSE mag
  IN IF uns THEN UintRes(64, x) ELSE IntRes(64, x)
\* integer literal text -> value / error / Indef (not an integer literal)
DigitVals(s) == [j \in 1..Len(s) |-> HexVal(s[j])]
ParseInt(t) ==
  LET neg == Len(t) >= 1 /\ t[1] = 45
      t1 == IF neg THEN Tail(t) ELSE t
      uns == Len(t1) >= 1 /\ t1[Len(t1)] \in {117, 85}
      t2 == IF uns THEN SubSeq(t1, 1, Len(t1) - 1) ELSE t1
      hex == Len(t2) >= 3 /\ t2[1] = 48 /\ t2[2] \in {120, 88}
      ds == IF hex THEN SubSeq(t2, 3, Len(t2)) ELSE t2
  IN IF ds = <<>> \/ (\E j \in 1..Len(ds) : IF hex THEN ~IsHex(ds[j]) ELSE ~IsDigit(ds[j])) THEN Indef
     ELSE IntDenote(neg, hex, DigitVals(ds), uns)
\* decimal floating literal: digits `ip` before the point, `fp` after, decimal exponent ex (signed int); value = (ip.fp) * 10^ex
RECURSIVE Pow5(_)
Pow5(k) == IF k = 0 THEN <<1>> ELSE MMulSmall(Pow5(k - 1), 5)
FloatDenote(neg, ip, fp, ex) ==
  LET n == FromDigits(ip \o fp, 10)
      p == ex - Len(fp)                \* value = n * 10^p
  IN IF n = <<>> THEN Zero(neg)
     ELSE IF p >= 0 THEN Round(Fin(neg, MMul(n, Pow5(p)), p))
     ELSE RoundQuot(neg, n, Pow5(-p), p)              \* n / 5^-p * 2^p, correctly rounded
=============================================================================
