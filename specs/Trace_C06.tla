---------------------------- MODULE Trace_C06 ----------------------------
(* Code -> spec: for texts the library parsed (conformance corpus, mutated corpus), the tree it produced
   (normalised by the harness: parenthesis nodes and single-child chains dropped) must be the tree
   the specification's parser builds from the same token sequence; texts it rejected must be rejected. *)
EXTENDS CelSyntax, Json, IOUtils
Trace == ndJsonDeserialize(IOEnv.TRACE_FILE)
VARIABLE i
Expected(e) == Parse(e.toks)
EventOK(e) == IF e.ok THEN Expected(e) = e.ast ELSE Expected(e) = NoParse
Init == i = 1 /\ TLCSet(1, <<>>)
Next == /\ i <= Len(Trace) /\ i' = i + 1
        /\ (EventOK(Trace[i]) \/ TLCSet(1, Append(TLCGet(1), <<i, IF Expected(Trace[i]) = NoParse THEN "reject" ELSE "accept-other-tree">>)))
Post == /\ PrintT(<<"REJECTED", TLCGet(1)>>)
        /\ PrintT(<<"CONSUMED", TLCGet("stats").diameter - 1, Len(Trace), 0>>)
=============================================================================
