---------------------------- MODULE Trace_C05 ----------------------------
(* Code -> spec: long random API histories recorded from ONE process each are run through the CelApi state machine.
   Events: [op |-> "Reset"] (a new process), [op |-> "NewEnv", r, d], [op |-> "Program", i, e], [op |-> "Evaluate", p, b, out].
   An Evaluate event is accepted iff its outcome is the specification's Outcome(decl, expr, binding) (or that is Indef). *)
EXTENDS CelApi, Json, IOUtils
Trace == ndJsonDeserialize(IOEnv.TRACE_FILE)
VARIABLE i
tvars == <<envs, progs, hist, out, i>>
Obs(o) == IF o.t \in {"int"} THEN [t |-> o.t, neg |-> o.neg, m |-> o.m] ELSE o
EvalOK(e) == LET x == Outcome(envs[progs[e.p].env].decl, progs[e.p].expr, e.b) IN
             IsIndef(x) \/ (IF x.t = "map" /\ e.out.t = "map" THEN Eq(x, e.out) ELSE x = Obs(e.out))
TInit == Init /\ i = 1 /\ TLCSet(1, <<>>)
TNext == /\ i <= Len(Trace) /\ i' = i + 1 /\ hist' = <<>> /\ out' = None
         /\ LET e == Trace[i] IN
            CASE e.op = "Reset" -> envs' = <<>> /\ progs' = <<>>
              [] e.op = "NewEnv" -> envs' = Append(envs, [runner |-> e.r, decl |-> e.d]) /\ UNCHANGED progs
              [] e.op = "Program" -> progs' = Append(progs, [env |-> e.i, expr |-> e.e]) /\ UNCHANGED envs
              [] e.op = "Evaluate" -> /\ UNCHANGED <<envs, progs>>
                                      /\ (EvalOK(e) \/ TLCSet(1, Append(TLCGet(1), <<i, Outcome(envs[progs[e.p].env].decl, progs[e.p].expr, e.b)>>)))
Post == /\ PrintT(<<"REJECTED", TLCGet(1)>>)
        /\ PrintT(<<"CONSUMED", TLCGet("stats").diameter - 1, Len(Trace), 0>>)
=============================================================================
