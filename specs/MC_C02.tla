---------------------------- MODULE MC_C02 ----------------------------
(* C02 model: every nesting of && || ! ?: over leaf classes up to SIZE nodes (grown by wrapping the current
   program in every operand position), and every list of up to LEN element outcomes under all() / exists().
   Each state carries <<program, expected outcome class>> and is replayed into both runners. *)
EXTENDS CelLogic, TLC, FiniteSets
CONSTANTS SIZE, LEN
VARIABLES e, exp
vars == <<e, exp>>
Leaf == { [k |-> c] : c \in Classes }
RECURSIVE Lists(_)
Lists(n) == IF n = 0 THEN {<<>>} ELSE LET s == Lists(n - 1) IN s \cup { Append(l, c) : l \in { x \in s : Len(x) = n - 1 }, c \in {"T", "F", "E", "N1"} }
Macros == { [k |-> m, s |-> l] : m \in {"all", "exists"}, l \in Lists(LEN) }
Init == e \in Leaf \cup Macros /\ exp = Ev(e)
Wrap(x) == { [k |-> o, a |-> x, b |-> l] : o \in {"and", "or"}, l \in Leaf }
      \cup { [k |-> o, a |-> l, b |-> x] : o \in {"and", "or"}, l \in Leaf }
      \cup { [k |-> "not", a |-> x] }
      \cup { [k |-> "cond", c |-> x, a |-> l1, b |-> l2] : l1 \in Leaf, l2 \in Leaf }
      \cup { [k |-> "cond", c |-> l1, a |-> x, b |-> l2] : l1 \in Leaf, l2 \in Leaf }
      \cup { [k |-> "cond", c |-> l1, a |-> l2, b |-> x] : l1 \in Leaf, l2 \in Leaf }
Next == /\ e.k \notin {"all", "exists"} \/ Size(e) = 1
        /\ e' \in Wrap(e) /\ Size(e') <= SIZE /\ exp' = Ev(e')
Spec == Init /\ [][Next]_vars

Swap(x) == [x EXCEPT !.a = x.b, !.b = x.a]
Commutative == e.k \in {"and", "or"} => Ev(e) = Ev(Swap(e))
DeMorgan == e.k = "and" => Dual(Ev(e)) = Or(Dual(Ev(e.a)), Dual(Ev(e.b)))
Deciding == /\ (e.k = "and" /\ (Ev(e.a) = "F" \/ Ev(e.b) = "F")) => exp = "F"
            /\ (e.k = "or" /\ (Ev(e.a) = "T" \/ Ev(e.b) = "T")) => exp = "T"
BoolOrErrorTable == (e.k = "and" /\ Ev(e.a) \in {"T", "F", "E"} /\ Ev(e.b) \in {"T", "F", "E"}) =>
                       exp = (IF Ev(e.a) = "F" \/ Ev(e.b) = "F" THEN "F" ELSE IF Ev(e.a) = "T" /\ Ev(e.b) = "T" THEN "T" ELSE "E")
TwoNonBooleans == (e.k \in {"and", "or"} /\ IsN(Ev(e.a)) /\ IsN(Ev(e.b))) => exp = "E"
Lazy == e.k = "cond" => (Ev(e.c) = "T" => exp = Ev(e.a)) /\ (Ev(e.c) = "F" => exp = Ev(e.b)) /\ (Ev(e.c) \in {"E", "N1", "N2"} => exp = "E")
NotError == (e.k = "not" /\ Ev(e.a) = "E") => exp = "E"
\* folds do not depend on element order: any F decides all(), any T decides exists()
FoldDecides == /\ (e.k = "all" /\ \E i \in 1..Len(e.s) : e.s[i] = "F") => exp = "F"
               /\ (e.k = "exists" /\ \E i \in 1..Len(e.s) : e.s[i] = "T") => exp = "T"
               /\ (e.k = "all" /\ \A i \in 1..Len(e.s) : e.s[i] = "T") => exp = "T"
               /\ (e.k = "exists" /\ \A i \in 1..Len(e.s) : e.s[i] = "F") => exp = "F"
               /\ (e.k = "all" /\ (\A i \in 1..Len(e.s) : e.s[i] \in {"T", "E"}) /\ (\E i \in 1..Len(e.s) : e.s[i] = "E")) => exp = "E"
               /\ (e.k = "exists" /\ (\A i \in 1..Len(e.s) : e.s[i] \in {"F", "E"}) /\ (\E i \in 1..Len(e.s) : e.s[i] = "E")) => exp = "E"
=============================================================================
