---------------------------- MODULE MC_C11 ----------------------------
(* C11 model.
   FAMILY "acc"   : every calendar accessor at month / year boundary instants (+- 1 microsecond, +- 1 second) under fixed
                    offsets and a hand-encoded table of IANA zones; one state per (instant, zone), prog = the list of the
                    ten accessor calls.
   FAMILY "arith" : t + d, t - d, d + t, (t + d) - d, (t + d) - t, t1 - t2, d1 +- d2 over boundary instants and durations,
                    with range errors.
   FAMILY "text"  : duration texts assembled from  number unit  components.
   The calendar itself is checked by invariants over a sweep of day numbers (FAMILY "cal"). *)
EXTENDS CelEval, TLC
CONSTANTS FAMILY, YEARS, TIER
OFFSETS == IF TIER = "quick" THEN {0, 330, -480, 840, -720, 15, -45} ELSE { 15 * k : k \in -56..56 }
VARIABLES prog, exp, aux
vars == <<prog, exp, aux>>
S(s) == Str(s)
Deltas == { Z, FromInt(-1), Neg(Mega), Mega }
Boundaries == { Add(Join(DaysFromCivil(y, m, 1), 0, 0), dl) : y \in YEARS, m \in 1..12, dl \in Deltas }
              \cup { Join(DaysFromCivil(y, 2, 28), 43200, 0) : y \in YEARS } \cup { Join(DaysFromCivil(y, 12, 31), 86399, 999999) : y \in YEARS }
\* daylight-saving transitions of 2021 and 2024 (New York, Paris, Sydney): the instant itself, one second / one hour to either side, and the
\* stretch of the zone's own offset before and after it (where a computation that looks the offset up with local time goes wrong)
DstYears == {2021, 2024}
Transitions == UNION { { Join(NthSunday(y, 3, 2), 7 * 3600, 0), Join(NthSunday(y, 11, 1), 6 * 3600, 0), Join(LastSunday31(y, 3), 3600, 0), Join(LastSunday31(y, 10), 3600, 0),
                         Join(NthSunday(y, 4, 1) - 1, 16 * 3600, 0), Join(NthSunday(y, 10, 1) - 1, 16 * 3600, 0) } : y \in DstYears }
Hour == Mul(FromInt(3600), Mega)
DstDeltas == { Z, Neg(Mega), Mega, Hour, Neg(Hour), Mul(FromInt(-2), Hour), Mul(FromInt(2), Hour), Mul(FromInt(-5), Hour), Mul(FromInt(5), Hour), Mul(FromInt(-10), Hour), Mul(FromInt(10), Hour),
               Add(Mul(FromInt(-3), Hour), Mul(FromInt(1800), Mega)), Add(Mul(FromInt(3), Hour), Mul(FromInt(1800), Mega)) }
DstInstants == { Add(t, dl) : t \in Transitions, dl \in DstDeltas }
Instants == { x \in Boundaries \cup DstInstants : InTs(x) }
OffText(o) == LET a == IF o < 0 THEN -o ELSE o IN <<(IF o < 0 THEN 45 ELSE 43)>> \o Pad(a \div 60, 2) \o <<58>> \o Pad(a % 60, 2)
Zones == { OffText(o) : o \in OFFSETS } \cup { Z_UTC, Z_Kolkata, Z_Tokyo, Z_Kathmandu, Z_Phoenix, Z_NewYork, Z_Paris, Z_Sydney }
AccNames == <<"getFullYear", "getMonth", "getDate", "getDayOfMonth", "getDayOfYear", "getDayOfWeek", "getHours", "getMinutes", "getSeconds", "getMilliseconds">>
AccProg(t, z) == ListE([j \in 1..10 |-> MCall(Lit(Ts(t)), AccNames[j], IF z = <<>> THEN <<>> ELSE <<Lit(S(z))>>)])
Day == Mul(FromInt(86400), Mega)
Durs == { Z, One, FromInt(-1), Mega, Neg(Mega), Day, Neg(Day), Mul(FromInt(146097), Day), Neg(Mul(FromInt(146097), Day)), DurLimUs, Neg(DurLimUs), Sub(DurLimUs, Mega) }
ArithTs == { TsMinUs, Add(TsMinUs, One), Join(0, 0, 0), Join(-1, 86399, 999999), Join(19782, 3600, 500000), Sub(TsMaxUs, One), TsMaxUs, Join(DaysFromCivil(2000, 2, 29), 0, 0) }
T(x) == Lit(Ts(x))
Du(x) == Lit(Dur(x))
ArithProgs ==
     { Bin("+", T(t), Du(d)) : t \in ArithTs, d \in Durs } \cup { Bin("-", T(t), Du(d)) : t \in ArithTs, d \in Durs } \cup { Bin("+", Du(d), T(t)) : t \in ArithTs, d \in Durs }
  \cup { Bin("-", Bin("+", T(t), Du(d)), Du(d)) : t \in ArithTs, d \in Durs } \cup { Bin("-", Bin("+", T(t), Du(d)), T(t)) : t \in ArithTs, d \in Durs }
  \cup { Bin("-", T(a), T(b)) : a \in ArithTs, b \in ArithTs }
  \cup { Bin(o, Du(a), Du(b)) : o \in {"+", "-"}, a \in Durs, b \in Durs }
  \cup { Bin("==", Bin("-", Bin("+", T(t), Du(d)), Du(d)), T(t)) : t \in ArithTs, d \in Durs }
  \cup { Bin(o, T(a), T(b)) : o \in {"<", "=="}, a \in ArithTs, b \in ArithTs }
Num2(n) == IF n < 10 THEN <<48 + n>> ELSE Pad(n, 2)
Comp == { <<49>>, <<48>>, <<50, 53>>, <<49, 46, 53>>, <<48, 46, 50, 53>>, <<46, 53>>,
          <<50, 46, 51>>, <<52, 46, 51, 53>>, <<51, 46, 55>> }       \* 2.3  4.35  3.7: decimal fractions that binary floating point does not hold exactly
Units == { <<104>>, <<109>>, <<115>>, <<109, 115>>, <<117, 115>>, <<110, 115>> }
Texts == { sg \o c \o u : sg \in {<<>>, <<45>>, <<43>>}, c \in Comp, u \in Units }
         \cup { c1 \o <<104>> \o c2 \o <<109>> \o c3 \o <<115>> : c1 \in {<<49>>, <<50, 53>>}, c2 \in {<<48>>, <<53, 57>>, <<49, 46, 53>>}, c3 \in {<<48>>, <<53, 57>>, <<48, 46, 50, 53>>} }
         \cup { <<49, 115>> \o c \o <<109, 115>> \o <<50, 117, 115>> : c \in {<<49>>, <<57, 57, 57>>} }
         \cup { <<>>, <<49>>, <<115>>, <<49, 120>>, <<49, 32, 115>>, <<49, 115, 115>>, <<45>>, <<51,49,53,53,55,54,48,48,48,48,48,48,115>>, <<51,49,53,53,55,54,48,48,48,48,48,49,115>>,
                <<56,55,54,54,48,48,48,48,104>>, <<56,55,54,54,48,48,48,49,104>>, <<49, 48, 48, 48, 110, 115>>, <<49, 53, 48, 48, 110, 115>>,
                \* large durations with a microsecond fraction (beyond what a binary64 number of seconds holds): 100000000000.000001s -100000000000.000001s 315575999999.999999s 87659999h59m59.999999s 9007199254.740993s 100000000000s1us 27777777h0.000001s
                <<49,48,48,48,48,48,48,48,48,48,48,48,46,48,48,48,48,48,49,115>>, <<45,49,48,48,48,48,48,48,48,48,48,48,48,46,48,48,48,48,48,49,115>>, <<51,49,53,53,55,53,57,57,57,57,57,57,46,57,57,57,57,57,57,115>>, <<56,55,54,53,57,57,57,57,104,53,57,109,53,57,46,57,57,57,57,57,57,115>>, <<57,48,48,55,49,57,57,50,53,52,46,55,52,48,57,57,51,115>>, <<49,48,48,48,48,48,48,48,48,48,48,48,115,49,117,115>>, <<50,55,55,55,55,55,55,55,104,48,46,48,48,48,48,48,49,115>> }
TextProgs == { Call("duration", <<Lit(S(x))>>) : x \in Texts }
Init == prog = Lit(Null) /\ exp = Null /\ aux = 0
\* (the instant is chosen in a first step so that TLC's workers share the expansion over zones)
PickInstant == FAMILY = "acc" /\ prog = Lit(Null) /\ aux = 0 /\ \E t \in Instants : prog' = Lit(Ts(t)) /\ aux' = 1 /\ exp' = Null
\* (the instants around daylight-saving transitions are paired with the zones that have such transitions, UTC and one fixed offset)
ZonesFor(t) == IF t \in DstInstants \ Boundaries THEN { Z_NewYork, Z_Paris, Z_Sydney, Z_UTC, OffText(-210), <<>> } ELSE Zones \cup {<<>>}
PickZone == FAMILY = "acc" /\ aux = 1 /\ \E z \in ZonesFor(BigOf(prog.v)) : prog' = AccProg(BigOf(prog.v), z) /\ aux' = 2 /\ exp' = Eval(prog', <<>>)
Next == PickInstant \/ PickZone \/
        /\ FAMILY # "acc" /\ prog = Lit(Null)
        /\ CASE FAMILY = "acc" -> FALSE
             [] FAMILY = "arith" -> \E p \in ArithProgs : prog' = p /\ aux' = 0
             [] FAMILY = "text" -> \E p \in TextProgs : prog' = p /\ aux' = 0
             [] FAMILY = "cal" -> \E n \in -719528..-719162 \cup -800..800 \cup 10957..11400 \cup 2932000..2932896 \cup 47000..48000 : prog' = Lit(IntV(FromInt(n))) /\ aux' = n
        /\ exp' = Eval(prog', <<>>)
Spec == Init /\ [][Next]_vars
\* the calendar: day number <-> civil date is a bijection, consecutive days are consecutive dates, weekdays cycle
CalendarBijection == FAMILY = "cal" /\ prog # Lit(Null) =>
     LET c == CivilFromDays(aux)  c2 == CivilFromDays(aux + 1) IN
     /\ DaysFromCivil(c.y, c.m, c.d) = aux
     /\ c.m \in 1..12 /\ c.d \in 1..DaysInMonth(c.y, c.m)
     /\ (IF c.d < DaysInMonth(c.y, c.m) THEN c2 = [c EXCEPT !.d = c.d + 1]
         ELSE IF c.m < 12 THEN c2 = [y |-> c.y, m |-> c.m + 1, d |-> 1] ELSE c2 = [y |-> c.y + 1, m |-> 1, d |-> 1])
     /\ Weekday(aux + 1) = (Weekday(aux) + 1) % 7
KnownDates == /\ DaysFromCivil(1970, 1, 1) = 0 /\ Weekday(0) = 4 /\ DaysFromCivil(2000, 3, 1) = 11017 /\ Weekday(DaysFromCivil(2024, 2, 29)) = 4
              /\ DaysFromCivil(1, 1, 1) = -719162 /\ DaysFromCivil(9999, 12, 31) = 2932896 /\ ~IsLeap(1900) /\ IsLeap(2000) /\ IsLeap(2024) /\ ~IsLeap(2100)
\* (t + d) - d = t and (t + d) - t = d whenever t + d is representable; t1 - t2 = -(t2 - t1)
AddSubLaws == (FAMILY = "arith" /\ prog.k = "bin" /\ prog.op = "-" /\ prog.l.k = "bin" /\ prog.l.op = "+" /\ exp.t \notin {"err", "indef"}) =>
     (exp = prog.r.v /\ prog.r.v.t = "duration") \/ (exp = prog.l.l.v /\ prog.r.v.t = "duration") \/ (prog.r.v.t = "timestamp" /\ exp = prog.l.r.v)
DiffAntisymmetric == (FAMILY = "arith" /\ prog.k = "bin" /\ prog.op = "-" /\ prog.l.k = "lit" /\ prog.l.v.t = "timestamp" /\ prog.r.v.t = "timestamp" /\ exp.t = "duration") =>
     Eval(Bin("-", prog.r, prog.l), <<>>) = Dur(Neg(BigOf(exp)))
SplitAgrees == (prog.k = "lit" /\ prog.v.t = "timestamp") => Split(BigOf(prog.v)) = SplitRef(BigOf(prog.v))
RangeChecked == (exp.t = "timestamp" => InTs(BigOf(exp))) /\ (exp.t = "duration" => InDur(BigOf(exp)))
\* accessor sanity: fields are in their civil ranges
FieldsInRange == (FAMILY = "acc" /\ exp.t = "list") =>
     LET v == [j \in 1..10 |-> ToInt(BigOf(exp.v[j]))] IN
     v[1] \in 0..10000 /\ v[2] \in 0..11 /\ v[3] \in 1..31 /\ v[4] = v[3] - 1 /\ v[5] \in 0..365 /\ v[6] \in 0..6 /\ v[7] \in 0..23 /\ v[8] \in 0..59 /\ v[9] \in 0..59 /\ v[10] \in 0..999
=============================================================================
