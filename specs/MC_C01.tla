---------------------------- MODULE MC_C01 ----------------------------
(* C01 model: every operand pair of a pool x every operator, with the expected outcome.
   MODE "small": width W (6..8), ALL pairs of the width; invariants compare the BigInt operators with
                 TLC's native integers (validates the oracle itself) and check the arithmetic laws.
   MODE "pool" : W = 64, operands from the boundary pool (MIN, MAX, 0, +-1, +-2^k, +-2^k+-1) united with
                 a small box -K..K; states are dumped and replayed into the implementation. *)
EXTENDS CelArith, TLC, FiniteSets
CONSTANTS MODE, W, K, Ks
VARIABLES ty, op, a, b, exp
vars == <<ty, op, a, b, exp>>

Box == { FromInt(n) : n \in -K..K }
AroundI(x) == { Sub(x, One), x, Add(x, One) }
IntPool == IF MODE = "small" THEN { FromInt(n) : n \in -(2^(W-1))..(2^(W-1) - 1) }
           ELSE { x \in Box \cup {IntMin(W), Add(IntMin(W), One), IntMax(W), Sub(IntMax(W), One)}
                      \cup UNION { AroundI(Pow2(k)) \cup AroundI(Neg(Pow2(k))) : k \in Ks } : InInt(W, x) }
UintPool == IF MODE = "small" THEN { FromInt(n) : n \in 0..(2^W - 1) }
            ELSE { x \in { FromInt(n) : n \in 0..K } \cup {UintMax(W), Sub(UintMax(W), One), Pow2(W - 1), Sub(Pow2(W-1), One), Add(Pow2(W-1), One)}
                      \cup UNION { AroundI(Pow2(k)) : k \in Ks } : InUint(W, x) }
Pool(t) == IF t = "int" THEN IntPool ELSE UintPool
Expected(t, o, x, y) == IF o = "neg" THEN (IF t = "int" THEN IntNeg(W, x) ELSE UintNeg(W, x))
                        ELSE IF o = "negneg" THEN        \* - - x: two negations, each of them checked (no cancelling)
                             (IF t = "uint" THEN Err ELSE LET n == IntNeg(W, x) IN IF n = Err THEN Err ELSE IntNeg(W, BigOf(n)))
                        ELSE IF t = "int" THEN IntOp(W, o, x, y) ELSE UintOp(W, o, x, y)

Init == /\ ty \in {"int", "uint"} /\ a \in Pool(ty) /\ op = "neg" /\ b = Z /\ exp = Expected(ty, "neg", a, Z)
Next == \/ /\ op = "neg" /\ op' \in BinOps /\ b' \in Pool(ty) /\ UNCHANGED <<ty, a>>
           /\ exp' = Expected(ty, op', a, b')
        \/ /\ op = "neg" /\ op' = "negneg" /\ b' = Z /\ UNCHANGED <<ty, a>>
           /\ exp' = Expected(ty, "negneg", a, Z)
Spec == Init /\ [][Next]_vars

----------------------------------------------------------------------------
Lo == IF ty = "int" THEN IntMin(W) ELSE Z
Hi == IF ty = "int" THEN IntMax(W) ELSE UintMax(W)
\* never a wrapped / saturated / out-of-range value
InRangeOrError == exp # Err => (Cmp(BigOf(exp), Lo) >= 0 /\ Cmp(BigOf(exp), Hi) <= 0 /\ exp.t = ty)
\* an error exactly when the exact result does not fit (or zero divisor / uint negation)
OkIffFits == op \in BinOps =>
   (exp = Err <=> (ZeroDiv(op, b) \/ LET r == Exact(op, a, b) IN Cmp(r, Lo) < 0 \/ Cmp(r, Hi) > 0))
\* a = (a/b)*b + a%b ; sign(a%b) in {0, sign a} ; |a%b| < |b|
DivLaw == (op \in {"/", "%"} /\ ~IsZero(b)) =>
   LET q == TDiv(a, b) r == TRem(a, b) IN
     /\ Add(Mul(q, b), r) = a
     /\ (IsZero(r) \/ r.neg = a.neg)
     /\ MCmp(r.m, b.m) < 0
     /\ MCmp(MMul(q.m, b.m), a.m) <= 0            \* truncation toward zero
Commute == op \in {"+", "*"} => Expected(ty, op, a, b) = Expected(ty, op, b, a)
SubIsAddNeg == (op = "-" /\ ty = "int" /\ Cmp(b, IntMin(W)) # 0) => Expected(ty, "-", a, b) = Expected(ty, "+", a, Neg(b))
NegLaw == (op = "neg" /\ ty = "int") => (exp = Err <=> Cmp(a, IntMin(W)) = 0)
NegNegLaw == (op = "negneg" /\ ty = "int") => (IF Cmp(a, IntMin(W)) = 0 THEN exp = Err ELSE exp = IntV(a))
UintNegIsError == (op = "neg" /\ ty = "uint") => exp = Err

\* native cross-check (only meaningful in MODE "small", where everything fits TLC's integers)
Sgn(n) == IF n < 0 THEN -1 ELSE 1
NAbs(n) == IF n < 0 THEN -n ELSE n
Native(o, x, y) == CASE o = "+" -> x + y [] o = "-" -> x - y [] o = "*" -> x * y
                     [] o = "/" -> Sgn(x) * Sgn(y) * (NAbs(x) \div NAbs(y))
                     [] o = "%" -> Sgn(x) * (NAbs(x) % NAbs(y))
                     [] o = "neg" -> -x
NLo == IF ty = "int" THEN -(2^(W-1)) ELSE 0
NHi == IF ty = "int" THEN 2^(W-1) - 1 ELSE 2^W - 1
NativeAgrees == (MODE = "small" /\ op # "negneg") =>
   LET x == ToInt(a) y == ToInt(b) IN
   IF (op \in {"/", "%"} /\ y = 0) \/ (op = "neg" /\ ty = "uint") THEN exp = Err
   ELSE LET n == Native(op, x, y) IN
        IF n < NLo \/ n > NHi THEN exp = Err ELSE exp # Err /\ ToInt(BigOf(exp)) = n
=============================================================================
