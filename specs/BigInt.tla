---------------------------- MODULE BigInt ----------------------------
(* Arbitrary-precision integers for TLC (whose integers are 32 bit).
   A magnitude is a little-endian sequence of limbs in 0..B-1 without most-significant zeros;
   zero is <<>>.  A signed integer is [neg, m].  With B = 2^15 every intermediate fits 32 bits.
   The algorithms are validated against TLC native integers by BigIntSelfCheck (B = 4). *)
EXTENDS Integers, Sequences
CONSTANTS B, LB   \* limb base B = 2^LB
\* magnitude: little-endian Seq(0..B-1) without trailing (most significant) zeros; zero = <<>>
RECURSIVE Trim(_)
Trim(m) == IF m = <<>> THEN m ELSE IF m[Len(m)] = 0 THEN Trim(SubSeq(m,1,Len(m)-1)) ELSE m
Limb(m,i) == IF i <= Len(m) THEN m[i] ELSE 0
Max2(a,b) == IF a >= b THEN a ELSE b
RECURSIVE CmpFrom(_,_,_)
CmpFrom(a,b,i) == IF i = 0 THEN 0 ELSE IF Limb(a,i) < Limb(b,i) THEN -1 ELSE IF Limb(a,i) > Limb(b,i) THEN 1 ELSE CmpFrom(a,b,i-1)
MCmp(a,b) == CmpFrom(a,b,Max2(Len(a),Len(b)))
RECURSIVE AddFrom(_,_,_,_,_)
AddFrom(a,b,i,n,c) == IF i > n THEN (IF c = 0 THEN <<>> ELSE <<c>>)
   ELSE LET s == Limb(a,i)+Limb(b,i)+c IN <<s % B>> \o AddFrom(a,b,i+1,n,s \div B)
MAdd(a,b) == AddFrom(a,b,1,Max2(Len(a),Len(b)),0)
RECURSIVE SubFrom(_,_,_,_,_)
\* requires a >= b
SubFrom(a,b,i,n,br) == IF i > n THEN <<>>
   ELSE LET d == Limb(a,i)-Limb(b,i)-br IN IF d < 0 THEN <<d+B>> \o SubFrom(a,b,i+1,n,1) ELSE <<d>> \o SubFrom(a,b,i+1,n,0)
MSub(a,b) == Trim(SubFrom(a,b,1,Len(a),0))
RECURSIVE MulSmallFrom(_,_,_,_)
MulSmallFrom(a,k,i,c) == IF i > Len(a) THEN (IF c = 0 THEN <<>> ELSE <<c % B>> \o (IF c \div B = 0 THEN <<>> ELSE <<c \div B>>))
   ELSE LET p == a[i]*k + c IN <<p % B>> \o MulSmallFrom(a,k,i+1,p \div B)
MMulSmall(a,k) == IF k = 0 THEN <<>> ELSE Trim(MulSmallFrom(a,k,1,0))
Shift(a,n) == IF a = <<>> THEN a ELSE [i \in 1..n |-> 0] \o a
RECURSIVE MulFrom(_,_,_)
MulFrom(a,b,j) == IF j > Len(b) THEN <<>> ELSE MAdd(Shift(MMulSmall(a,b[j]), j-1), MulFrom(a,b,j+1))
MMul(a,b) == MulFrom(a,b,1)
\* long division: process limbs of a from most significant; r = r*B + limb; q digit = max d with d*b <= r (binary search)
RECURSIVE FindDigit(_,_,_,_)
FindDigit(r,b,lo,hi) == IF lo = hi THEN lo ELSE LET mid == (lo+hi+1) \div 2 IN IF MCmp(MMulSmall(b,mid), r) <= 0 THEN FindDigit(r,b,mid,hi) ELSE FindDigit(r,b,lo,mid-1)
RECURSIVE DivFrom(_,_,_,_)
\* returns <<qdigits (big-endian appended), r>>
DivFrom(a,b,i,r) == IF i = 0 THEN <<<<>>, r>>
   ELSE LET r1 == Trim(<<a[i]>> \o r)
            d == FindDigit(r1,b,0,B-1)
            r2 == MSub(r1, MMulSmall(b,d))
            rest == DivFrom(a,b,i-1,r2)
        IN <<rest[1] \o <<d>>, rest[2]>>
MDivMod(a,b) == LET x == DivFrom(a,b,Len(a),<<>>) IN <<Trim(x[1]), x[2]>>
\* signed
Z == [neg |-> FALSE, m |-> <<>>]
Mk(neg,m) == [neg |-> (neg /\ m # <<>>), m |-> m]
Neg(x) == Mk(~x.neg, x.m)
Add(x,y) == IF x.neg = y.neg THEN Mk(x.neg, MAdd(x.m,y.m))
            ELSE IF MCmp(x.m,y.m) >= 0 THEN Mk(x.neg, MSub(x.m,y.m)) ELSE Mk(y.neg, MSub(y.m,x.m))
Sub(x,y) == Add(x, Neg(y))
Mul(x,y) == Mk(x.neg # y.neg, MMul(x.m,y.m))
Cmp(x,y) == IF x.neg # y.neg THEN (IF x.neg THEN -1 ELSE 1) ELSE IF x.neg THEN MCmp(y.m,x.m) ELSE MCmp(x.m,y.m)
TDiv(x,y) == Mk(x.neg # y.neg, MDivMod(x.m,y.m)[1])
TRem(x,y) == Mk(x.neg, MDivMod(x.m,y.m)[2])
RECURSIVE MFromNat(_)
MFromNat(n) == IF n = 0 THEN <<>> ELSE <<n % B>> \o MFromNat(n \div B)
FromInt(n) == IF n < 0 THEN Mk(TRUE, MFromNat(-n)) ELSE Mk(FALSE, MFromNat(n))
RECURSIVE MToNat(_)
MToNat(m) == IF m = <<>> THEN 0 ELSE m[1] + B * MToNat(Tail(m))
ToInt(x) == IF x.neg THEN -MToNat(x.m) ELSE MToNat(x.m)
MPow2(k) == [i \in 1..(k \div LB) |-> 0] \o <<2^(k % LB)>>
Pow2(k) == Mk(FALSE, MPow2(k))
One == FromInt(1)
IsZero(x) == x.m = <<>>
Sign(x) == IF x.m = <<>> THEN 0 ELSE IF x.neg THEN -1 ELSE 1
Abs(x) == Mk(FALSE, x.m)
\* number of bits of a magnitude (0 for zero)
RECURSIVE BitsNat(_)
BitsNat(n) == IF n = 0 THEN 0 ELSE 1 + BitsNat(n \div 2)
MBits(m) == IF m = <<>> THEN 0 ELSE (Len(m) - 1) * LB + BitsNat(m[Len(m)])
\* number of trailing zero bits (magnitude # 0)
RECURSIVE TzNat(_)
TzNat(n) == IF n % 2 = 1 THEN 0 ELSE 1 + TzNat(n \div 2)
RECURSIVE MTz(_)
MTz(m) == IF m[1] = 0 THEN LB + MTz(Tail(m)) ELSE TzNat(m[1])
\* shifts
MShl(m, k) == IF m = <<>> THEN m ELSE Shift(MMulSmall(m, 2^(k % LB)), k \div LB)
RECURSIVE DivSmallFrom(_,_,_,_)
DivSmallFrom(m, d, i, rem) == IF i = 0 THEN <<>> ELSE LET cur == rem * B + m[i] IN DivSmallFrom(m, d, i - 1, cur % d) \o <<cur \div d>>
MDivSmall(m, d) == Trim(DivSmallFrom(m, d, Len(m), 0))
RECURSIVE ModSmallFrom(_,_,_,_)
ModSmallFrom(m, d, i, rem) == IF i = 0 THEN rem ELSE ModSmallFrom(m, d, i - 1, (rem * B + m[i]) % d)
MModSmall(m, d) == ModSmallFrom(m, d, Len(m), 0)           \* d < B
\* floor division of a signed integer by a small positive d: <<quotient (signed), remainder in 0..d-1>>
FloorDivModSmall(x, d) == LET q0 == MDivSmall(x.m, d)  r0 == MModSmall(x.m, d) IN
                          IF ~x.neg THEN <<Mk(FALSE, q0), r0>>
                          ELSE IF r0 = 0 THEN <<Mk(TRUE, q0), 0>> ELSE <<Mk(TRUE, MAdd(q0, <<1>>)), d - r0>>
MShr(m, k) == IF Len(m) <= k \div LB THEN <<>> ELSE MDivSmall(SubSeq(m, (k \div LB) + 1, Len(m)), 2^(k % LB))
\* decimal digits (most significant first) <-> magnitude
RECURSIVE MFromDigits(_,_,_)
MFromDigits(ds, base, acc) == IF ds = <<>> THEN acc ELSE MFromDigits(Tail(ds), base, MAdd(MMulSmall(acc, base), MFromNat(ds[1])))
FromDigits(ds, base) == MFromDigits(ds, base, <<>>)
RECURSIVE MToDigits(_,_)
MToDigits(m, base) == IF m = <<>> THEN <<>> ELSE LET qr == MDivMod(m, MFromNat(base)) IN MToDigits(qr[1], base) \o <<MToNat(qr[2])>>
ToDigits(m, base) == IF m = <<>> THEN <<0>> ELSE MToDigits(m, base)
=============================================================================
