---------------------------- MODULE CelThreads ----------------------------
(* Concurrent evaluations in separate environments (C16).
   The documented contract: every thread has its own Environment, program and bindings; an evaluation is then a private
   computation, i.e. the concurrent system is the product of the threads' private machines and every evaluation returns
   what it returns alone.

   What could break this is process-wide state: module-level names, class attributes.  A thread's evaluation is modelled as
   the sequence of its accesses to such shared cells, RECORDED from the real code at Python-line granularity:
        Progs[t] = << [r |-> cells read by the line, w |-> cells written by the line], ... >>
        (v: the values written, parallel to w, as recorded identity / content fingerprints)
   Step(t) performs thread t's next line atomically.  Interference = a thread reads a cell it has written during this
   run and finds a value that is not the one it wrote (a write of the same value by another thread is harmless).
   TLC explores every interleaving of the recorded programs. *)
EXTENDS Integers, Sequences, FiniteSets, TLC, Json, IOUtils
Progs == JsonDeserialize(IOEnv.PROG_FILE)          \* sequence (one per thread) of sequences of steps
Threads == 1..Len(Progs)
RECURSIVE CellsOf(_)
CellsOf(p) == IF p = <<>> THEN {} ELSE { p[1].r[i] : i \in 1..Len(p[1].r) } \cup { p[1].w[i] : i \in 1..Len(p[1].w) } \cup CellsOf(Tail(p))
Cells == UNION { CellsOf(Progs[t]) : t \in Threads }
ToSet(s) == { s[i] : i \in 1..Len(s) }
VARIABLES pc, val, mine, bad
vars == <<pc, val, mine, bad>>
\* val[c]: the value currently in cell c (as recorded: an identity / content fingerprint; "-" = what it held before)
\* mine[t]: what thread t itself last wrote into each cell it has written (a function on the cells it wrote)
Init == /\ pc = [t \in Threads |-> 1]
        /\ val = [c \in Cells |-> "-"]
        /\ mine = [t \in Threads |-> <<>>]
        /\ bad = <<>>
Has(f, c) == \E i \in 1..Len(f) : f[i][1] = c
Get(f, c) == f[CHOOSE i \in 1..Len(f) : f[i][1] = c][2]
Put(f, c, v) == IF Has(f, c) THEN [i \in 1..Len(f) |-> IF f[i][1] = c THEN <<c, v>> ELSE f[i]] ELSE Append(f, <<c, v>>)
RECURSIVE PutAll(_,_,_)
PutAll(f, w, v) == IF w = <<>> THEN f ELSE PutAll(Put(f, w[1], v[1]), Tail(w), Tail(v))
Foreign(t, c) == Has(mine[t], c) /\ val[c] # Get(mine[t], c)        \* t wrote c and now finds a value that is not the one it wrote
Step(t) == /\ pc[t] <= Len(Progs[t])
           /\ LET s == Progs[t][pc[t]]  R == ToSet(s.r) IN
              /\ bad' = IF bad = <<>> /\ \E c \in R : Foreign(t, c)
                        THEN <<t, pc[t], CHOOSE c \in R : Foreign(t, c)>> ELSE bad
              /\ val' = [c \in Cells |-> IF \E i \in 1..Len(s.w) : s.w[i] = c THEN s.v[CHOOSE i \in 1..Len(s.w) : s.w[i] = c] ELSE val[c]]
              /\ mine' = [mine EXCEPT ![t] = PutAll(@, s.w, s.v)]
           /\ pc' = [pc EXCEPT ![t] = @ + 1]
Next == \E t \in Threads : Step(t)
Spec == Init /\ [][Next]_vars
\* the contract, as far as the recorded accesses go
NoInterference == bad = <<>>
\* a thread never writes a cell another thread writes (the stronger, structural form: the private machines do not overlap)
CellsWritten(t) == UNION { ToSet(Progs[t][i].w) : i \in 1..Len(Progs[t]) }
Disjoint == \A t1, t2 \in Threads : t1 # t2 => (CellsWritten(t1) \cap CellsWritten(t2) = {})
=============================================================================
