---------------------------- MODULE CelThreads ----------------------------
(* Concurrent evaluations in separate environments (C16).
   The documented contract: every thread has its own Environment, program and bindings; an evaluation is then a private
   computation, i.e. the concurrent system is the product of the threads' private machines and every evaluation returns
   what it returns alone.

   What could break this is process-wide state: module-level names, class attributes.  A thread's evaluation is modelled as
   the sequence of its accesses to such shared cells, RECORDED from the real code at Python-line granularity:
        Progs[t] = << [r |-> cells read by the line, w |-> cells written by the line], ... >>
   Step(t) performs thread t's next line atomically.  Interference = a thread reads a cell it has written during this
   evaluation and finds another thread's value.  TLC explores every interleaving of the recorded programs. *)
EXTENDS Integers, Sequences, FiniteSets, TLC, Json, IOUtils
Progs == JsonDeserialize(IOEnv.PROG_FILE)          \* sequence (one per thread) of sequences of steps
Threads == 1..Len(Progs)
RECURSIVE CellsOf(_)
CellsOf(p) == IF p = <<>> THEN {} ELSE { p[1].r[i] : i \in 1..Len(p[1].r) } \cup { p[1].w[i] : i \in 1..Len(p[1].w) } \cup CellsOf(Tail(p))
Cells == UNION { CellsOf(Progs[t]) : t \in Threads }
ToSet(s) == { s[i] : i \in 1..Len(s) }
VARIABLES pc, last, wrote, bad
vars == <<pc, last, wrote, bad>>
Init == /\ pc = [t \in Threads |-> 1]
        /\ last = [c \in Cells |-> 0]
        /\ wrote = [t \in Threads |-> {}]
        /\ bad = <<>>
Step(t) == /\ pc[t] <= Len(Progs[t])
           /\ LET s == Progs[t][pc[t]]  R == ToSet(s.r)  W == ToSet(s.w) IN
              /\ bad' = IF bad = <<>> /\ \E c \in R : c \in wrote[t] /\ last[c] # t
                        THEN <<t, pc[t], CHOOSE c \in R : c \in wrote[t] /\ last[c] # t>> ELSE bad
              /\ last' = [c \in Cells |-> IF c \in W THEN t ELSE last[c]]
              /\ wrote' = [wrote EXCEPT ![t] = @ \cup W]
           /\ pc' = [pc EXCEPT ![t] = @ + 1]
Next == \E t \in Threads : Step(t)
Spec == Init /\ [][Next]_vars
\* the contract, as far as the recorded accesses go
NoInterference == bad = <<>>
\* a thread never writes a cell another thread writes (the stronger, structural form: the private machines do not overlap)
CellsWritten(t) == UNION { ToSet(Progs[t][i].w) : i \in 1..Len(Progs[t]) }
Disjoint == \A t1, t2 \in Threads : t1 # t2 => (CellsWritten(t1) \cap CellsWritten(t2) = {})
=============================================================================
