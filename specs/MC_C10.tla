---------------------------- MODULE MC_C10 ----------------------------
(* C10 model: every conversion function applied to every value of boundary pools of every source type (one step), and
   every composition of two conversions (round trips and cross conversions).  exp = Eval(prog).
   The round-trip equations of the statement are model invariants. *)
EXTENDS CelEval, TLC
VARIABLES prog, exp
vars == <<prog, exp>>
I(x) == IntV(x)
U(x) == UintV(x)
D(neg, m, e) == Fin(neg, m, e)
S(s) == Str(s)
P53 == MPow2(53)
IntPool == { I(x) : x \in { IntMin(64), Add(IntMin(64), One), FromInt(-1), Z, One, FromInt(7), Pow2(31), Pow2(53), Add(Pow2(53), One), Sub(IntMax(64), One), IntMax(64) } }
UintPool == { U(x) : x \in { Z, One, IntMax(64), Pow2(63), Sub(UintMax(64), One), UintMax(64) } }
DblPool == { NaN, Inf(FALSE), Inf(TRUE), Zero(FALSE), Zero(TRUE) } \cup
           { D(s, m, e) : s \in BOOLEAN, m \in {<<1>>}, e \in {-1, 0, 63, 64, 62} } \cup
           { D(s, MSub(P53, <<1>>), e) : s \in BOOLEAN, e \in {10, 11, 0, -1, -52} } \cup { D(s, <<3>>, -1) : s \in BOOLEAN } \cup { D(FALSE, <<1>>, 1000) }
Txt(s) == S(s)
StrPool == { S(<<65279, 97>>), S(<<65279>>), S(<<>>), S(<<97>>), S(<<233>>), S(<<128049>>), S(<<49, 50, 51>>), S(<<45, 53>>), S(<<97, 98, 99>>), S(<<49, 101, 51>>), S(<<32, 49>>), S(<<43, 49>>), S(<<48, 48, 55>>),
             S(<<49,56,52,52,54,55,52,52,48,55,51,55,48,57,53,53,49,54,49,53>>), S(<<49,56,52,52,54,55,52,52,48,55,51,55,48,57,53,53,49,54,49,54>>),
             S(<<57,50,50,51,51,55,50,48,51,54,56,53,52,55,55,53,56,48,55>>), S(<<57,50,50,51,51,55,50,48,51,54,56,53,52,55,55,53,56,48,56>>),
             S(<<45,57,50,50,51,51,55,50,48,51,54,56,53,52,55,55,53,56,48,56>>), S(<<45,57,50,50,51,51,55,50,48,51,54,56,53,52,55,55,53,56,48,57>>),
             S(<<116, 114, 117, 101>>), S(<<102, 97, 108, 115, 101>>), S(<<45, 48>>) }
BytesPool == { Bytes(<<239, 187, 191, 97>>), Bytes(<<>>), Bytes(<<97>>), Bytes(<<195, 169>>), Bytes(<<240, 159, 144, 177>>), Bytes(<<255>>), Bytes(<<195>>), Bytes(<<195, 40>>), Bytes(<<237, 160, 128>>),
               Bytes(<<192, 128>>), Bytes(<<97, 128>>), Bytes(<<244, 144, 128, 128>>), Bytes(<<224, 128, 128>>) }
TsOf(y, mo, d, sec) == Ts(Join(DaysFromCivil(y, mo, d), sec, 0))
TsPool == { TsOf(1, 1, 1, 0), TsOf(999, 12, 31, 86399), TsOf(1000, 1, 1, 0), TsOf(1969, 12, 31, 86399), TsOf(1970, 1, 1, 0), TsOf(2000, 2, 29, 43200), TsOf(9999, 12, 31, 86399),
            Ts(Join(DaysFromCivil(2009, 2, 13), 84690, 500000)), Ts(Join(DaysFromCivil(2009, 2, 13), 84690, 123456)), Ts(Join(DaysFromCivil(1969, 12, 31), 86399, 999999)) }      \* with a fraction of a second
DurPool == { Dur(x) : x \in { Z, Mega, Neg(Mega), DurLimUs, Neg(DurLimUs), Mul(FromInt(3661), Mega),
                             FromInt(1500000), FromInt(-1500000), One, FromInt(-1), FromInt(-250000), Sub(DurLimUs, One) } }      \* with a fraction of a second
C(s) == [j \in 1..Len(s) |-> s[j]]
TsTexts == { S(Rfc3339(BigOf(t))) : t \in TsPool } \cup
   { S(<<50,48,50,48,45,48,50,45,51,48,84,48,48,58,48,48,58,48,48,90>>),                 \* 2020-02-30T00:00:00Z  (no such day)
     S(<<49,48,48,48,48,45,48,49,45,48,49,84,48,48,58,48,48,58,48,48,90>>),              \* 10000-01-01T00:00:00Z
     S(<<48,48,48,48,45,49,50,45,51,49,84,50,51,58,53,57,58,53,57,90>>),                 \* 0000-12-31T23:59:59Z
     S(<<50,48,50,48,45,48,49,45,48,49,84,48,48,58,48,48,58,48,48,43,49,52,58,48,48>>),  \* 2020-01-01T00:00:00+14:00
     S(<<50,48,50,48,45,48,49,45,48,49,84,48,48,58,48,48,58,48,48,46,53,90>>),           \* 2020-01-01T00:00:00.5Z
     S(<<50,48,50,48,45,49,51,45,48,49,84,48,48,58,48,48,58,48,48,90>>),                 \* month 13
     S(<<50,48,50,48,45,48,49,45,48,49,84,50,52,58,48,48,58,48,48,90>>),                 \* hour 24
     S(<<48,48,48,49,45,48,49,45,48,49,84,48,48,58,48,48,58,48,48,43,48,48,58,48,49>>),  \* 0001-01-01T00:00:00+00:01 (before the range)
     S(<<57,57,57,57,45,49,50,45,51,49,84,50,51,58,53,57,58,53,57,45,48,48,58,48,49>>) } \* 9999-12-31T23:59:59-00:01 (after the range)
DurTexts == { S(<<49,104,49,109,49,115>>), S(<<49,46,53,115>>), S(<<45,49,46,53,104>>), S(<<49,109,115>>), S(<<49,117,115>>), S(<<49,48,48,48,110,115>>), S(<<49,110,115>>),
              S(<<51,49,53,53,55,54,48,48,48,48,48,48,115>>), S(<<51,49,53,53,55,54,48,48,48,48,48,49,115>>), S(<<45,51,49,53,53,55,54,48,48,48,48,48,49,115>>),
              S(<<>>), S(<<49>>), S(<<115>>), S(<<49,120>>), S(<<48,115>>), S(<<43,50,109>>), S(<<49,104,48,46,53,109>>), S(<<46,53,115>>) }
Values == IntPool \cup UintPool \cup DblPool \cup StrPool \cup BytesPool \cup TsPool \cup DurPool \cup TsTexts \cup DurTexts \cup { Bool(TRUE), Bool(FALSE) }
Cv(f, a) == Call(f, <<a>>)
One1 == { Cv(f, Lit(v)) : f \in ConvNames, v \in Values }
Pairs == { <<"int", "string">>, <<"uint", "string">>, <<"string", "bytes">>, <<"bytes", "string">>, <<"timestamp", "string">>, <<"duration", "string">>,
           <<"int", "double">>, <<"double", "int">>, <<"int", "uint">>, <<"uint", "int">>, <<"uint", "double">>, <<"double", "uint">>, <<"string", "int">>,
           <<"string", "uint">>, <<"string", "duration">>, <<"int", "timestamp">>, <<"bool", "string">>, <<"string", "bool">> }
Two == { Cv(p[1], Cv(p[2], Lit(v))) : p \in Pairs, v \in Values }
Laws == { Bin("==", Cv(p[1], Cv(p[2], Lit(v))), Lit(v)) : p \in { <<"int", "string">>, <<"uint", "string">>, <<"string", "bytes">>, <<"timestamp", "string">>, <<"duration", "string">> },
                                                              v \in IntPool \cup UintPool \cup StrPool \cup TsPool \cup DurPool }
\* a conversion (or type(), size(), dyn()) of an operand whose evaluation fails is that failure -- however the failure arises:
\* directly, or as the outcome of a logical operator / conditional that could not absorb it
ErrLeaf == Bin("/", Lit(IntV(FromInt(1))), Lit(IntV(FromInt(0))))
ErrCmp == Bin(">", ErrLeaf, Lit(IntV(FromInt(0))))
Failing == { ErrLeaf, ErrCmp, Bin("||", Lit(Bool(FALSE)), ErrCmp), Bin("||", ErrCmp, Lit(Bool(FALSE))), Bin("&&", Lit(Bool(TRUE)), ErrCmp),
             CondE(Lit(Bool(TRUE)), ErrLeaf, Lit(IntV(FromInt(1)))), CondE(ErrCmp, Lit(IntV(FromInt(1))), Lit(IntV(FromInt(2)))), Un("!", ErrCmp),
             Idx(Lit(List(<<>>)), Lit(IntV(FromInt(0)))), Cv("int", Lit(S(<<97>>))) }
StrictSet == { Cv(f, e) : f \in ConvNames \cup {"type", "size", "dyn"}, e \in Failing }
Init == prog = Lit(Null) /\ exp = Null
Next == prog = Lit(Null) /\ prog' \in One1 \cup Two \cup Laws \cup StrictSet /\ exp' = Eval(prog', <<>>)
Spec == Init /\ [][Next]_vars
Src(v, f, g) == (g = "string" /\ ((f = "int" /\ v.t = "int") \/ (f = "uint" /\ v.t = "uint") \/ (f = "timestamp" /\ v.t = "timestamp") \/ (f = "duration" /\ v.t = "duration")))
                \/ (f = "string" /\ g = "bytes" /\ v.t = "string")
\* the round trips of the statement hold for every value of the source type
RoundTrip == (prog.k = "call" /\ prog.args[1].k = "call" /\ prog.args[1].args[1].k = "lit" /\ Src(prog.args[1].args[1].v, prog.f, prog.args[1].f)) => exp = prog.args[1].args[1].v
LawsHold == (prog.k = "bin" /\ Src(prog.r.v, prog.l.f, prog.l.args[1].f)) => exp = Bool(TRUE)
StrictConversions == (prog.k = "call" /\ prog.args[1] \in Failing) => exp = Err
\* a conversion result is in range for its type or an error
InRange == /\ (exp.t = "int" => InInt(64, BigOf(exp))) /\ (exp.t = "uint" => InUint(64, BigOf(exp)))
           /\ (exp.t = "timestamp" => InTs(BigOf(exp))) /\ (exp.t = "duration" => InDur(BigOf(exp)))
TruncatesTowardZero == (prog.k = "call" /\ prog.f = "int" /\ prog.args[1].k = "lit" /\ prog.args[1].v.t = "double" /\ exp.t = "int") =>
     LET d == prog.args[1].v IN d.c = "zero" \/ (exp.neg = (d.neg /\ ~IsZero(BigOf(exp))) /\ MCmp(MShl(exp.m, 1100), MShl(d.m, 1100 + d.e)) <= 0
                                                  /\ MCmp(MShl(MAdd(exp.m, <<1>>), 1100), MShl(d.m, 1100 + d.e)) > 0)
=============================================================================
