---------------------------- MODULE Trace_XREPL ----------------------------
(* Code -> spec for the interactive loop: each line of the trace file is one recorded session of the real CEL_REPL:
     [steps |-> << [cmd, printed (code points), st (the activation after the command), stop] ... >>, ncmds, nrec, exc].
   The session is stepped through CelRepl's own actions (Do / Empty / Quit); after every step the recorded activation must be
   the specification's, a value must have been printed exactly when the specification says the command has one, and the loop must have
   stopped exactly at a quit.  A session is abandoned (not rejected) where the specification leaves an expression's value open. *)
EXTENDS CelRepl, TLC, Json, IOUtils
Trace == ndJsonDeserialize(IOEnv.TRACE_FILE)
VARIABLES i, k, why
tvars == <<st, last, alive, out, i, k, why>>
Sess == Trace[i]
Ev == Sess.steps[k]
Fresh == st' = <<>> /\ last' = NoCmd /\ alive' = TRUE /\ out' = [o |-> "nothing"]
StepAction(cmd) == IF cmd.c \in {"set", "expr", "show"} THEN Do(cmd) ELSE IF cmd.c = "empty" THEN Empty ELSE Quit(cmd.w)
Judge(ev, s, o, al) == IF o.o = "indef" THEN "ok"
                       ELSE IF ~SameSt(s, ev.st) THEN "the activation"
                       ELSE IF o.o = "value" /\ ev.printed = <<>> THEN "nothing printed for a value"
                       ELSE IF o.o = "nothing" /\ ev.printed # <<>> THEN "output for a command without a value"
                       ELSE IF ev.stop # ~al THEN "the loop's end"
                       ELSE "ok"
Init == i = 1 /\ k = 1 /\ why = "ok" /\ ReplInit /\ TLCSet(1, <<>>) /\ TLCSet(2, 0)
Consume == /\ i <= Len(Trace) /\ why = "ok" /\ Running /\ k <= Len(Sess.steps)
           /\ StepAction(Ev.cmd)
           /\ why' = Judge(Ev, st', out', alive')
           /\ k' = k + 1 /\ i' = i
\* the session is over: rejected, abandoned, stopped, or all steps consumed
Verdict == IF why # "ok" THEN why
           ELSE IF Sess.exc # "" THEN "an exception left the loop"
           ELSE IF out.o = "indef" THEN "ok"
           ELSE IF alive /\ Sess.nrec # Sess.ncmds THEN "commands not executed"
           ELSE IF ~alive /\ Sess.nrec # k - 1 THEN "commands read after quit"
           ELSE "ok"
Close == /\ i <= Len(Trace) /\ (why # "ok" \/ ~Running \/ k > Len(Sess.steps))
         /\ i' = i + 1 /\ k' = 1 /\ why' = "ok" /\ Fresh
         /\ TLCSet(2, i)
         /\ (Verdict = "ok" \/ TLCSet(1, Append(TLCGet(1), <<i, Verdict>>)))
Next == Consume \/ Close
Post == /\ PrintT(<<"REJECTED", TLCGet(1)>>)
        /\ PrintT(<<"CONSUMED", TLCGet(2), Len(Trace), 0>>)
=============================================================================
