---------------------------- MODULE Trace_Eval ----------------------------
(* Code -> spec for every property decided with the reference evaluator: events [prog, env, out] recorded from the
   implementation (both runners) must satisfy out = Eval(prog, env) unless Eval says Indef. *)
EXTENDS CelEval, TLC, Json, IOUtils
Trace == ndJsonDeserialize(IOEnv.TRACE_FILE)
VARIABLE i
Expected(e) == Eval(e.prog, e.env)
\* the observed value arrives in wire form, which is the spec's record form; errors as [t |-> "err"]
Matches(x, o) == IF x.t = "double" /\ o.t = "double" /\ x.c = "nan" THEN o.c = "nan"
                 ELSE IF x.t = "map" /\ o.t = "map" THEN Eq(x, o) /\ SameShape(x, o) ELSE x = o
EventOK(e) == LET x == Expected(e) IN IsIndef(x) \/ Matches(x, e.out)
Init == i = 1 /\ TLCSet(1, <<>>) /\ TLCSet(2, 0)
Next == /\ i <= Len(Trace) /\ i' = i + 1
        /\ LET x == Expected(Trace[i]) IN
           IF IsIndef(x) THEN TLCSet(2, TLCGet(2) + 1)
           ELSE IF Matches(x, Trace[i].out) THEN TRUE
           ELSE TLCSet(1, Append(TLCGet(1), <<i, x>>))
Post == /\ PrintT(<<"REJECTED", TLCGet(1)>>)
        /\ PrintT(<<"CONSUMED", TLCGet("stats").diameter - 1, Len(Trace), TLCGet(2)>>)
=============================================================================
