---------------------------- MODULE Trace_C19 ----------------------------
(* Code -> spec: what the real translator emitted.
     [kind |-> "literal", s, text]   : the CEL literal `text` emitted for the policy string s must decode to exactly s
     [kind |-> "duration", secs (BigInt record), text] : the duration text must denote secs seconds
     [kind |-> "parse", toks]        : an emitted clause (value clause, table entry) must be syntactically valid CEL *)
EXTENDS C7nValue, TLC, Json, IOUtils
Syn == INSTANCE CelSyntax
Trace == ndJsonDeserialize(IOEnv.TRACE_FILE)
VARIABLE i
Why(e) == CASE e.kind = "literal" -> (IF DecodeLiteral(e.text) = Str(e.s) THEN "ok" ELSE IF DecodeLiteral(e.text) = Indef THEN "not a well-formed literal" ELSE "decodes to another string")
            [] e.kind = "duration" -> (IF XlateDurSeconds(e.text) = Mk(e.secs.neg, e.secs.m) THEN "ok" ELSE IF XlateDurSeconds(e.text) = BadDur THEN "not a duration text" ELSE "another length of time")
            [] e.kind = "parse" -> (IF Syn!Accepts(e.toks) THEN "ok" ELSE "does not parse")
Init == i = 1 /\ TLCSet(1, <<>>)
Next == /\ i <= Len(Trace) /\ i' = i + 1
        /\ LET w == Why(Trace[i]) IN w = "ok" \/ TLCSet(1, Append(TLCGet(1), <<i, w>>))
Post == /\ PrintT(<<"REJECTED", TLCGet(1)>>)
        /\ PrintT(<<"CONSUMED", TLCGet("stats").diameter - 1, Len(Trace), 0>>)
=============================================================================
