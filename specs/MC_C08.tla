---------------------------- MODULE MC_C08 ----------------------------
(* C08 model: all ordered pairs (a, b) of each same-type value pool, with the six relations as the
   specification defines them; model invariants are the coherence laws of the statement (checked for all
   pairs and, for transitivity / congruence, against every third value of the pool). *)
EXTENDS CelValue, TLC, FiniteSets
CONSTANT FAMILIES
VARIABLES fam, a, b, exp
vars == <<fam, a, b, exp>>
I(n) == IntV(FromInt(n))
S(s) == Str(s)
IntPool == { IntV(x) : x \in {IntMin(64), Add(IntMin(64), One), FromInt(-1), Z, One, FromInt(2), Pow2(31), Pow2(32), Pow2(53), Add(Pow2(53), One), Sub(IntMax(64), One), IntMax(64)} }
UintPool == { UintV(x) : x \in {Z, One, Pow2(32), Pow2(53), Add(Pow2(53), One), Pow2(63), Add(Pow2(63), One), Sub(Pow2(63), One), Sub(UintMax(64), One), UintMax(64)} }
DblPool == {Inf(TRUE), Inf(FALSE), Zero(TRUE), Zero(FALSE)} \cup
           { Fin(s, me[1], me[2]) : s \in BOOLEAN, me \in { <<<<1>>, 0>>, <<<<3>>, -1>>, <<<<1>>, -1074>>, <<<<1>>, 53>>, <<MSub(MPow2(53), <<1>>), 0>>, <<MSub(MPow2(53), <<1>>), 1>>, <<<<1>>, 1023>>, <<<<5>>, -2>>,
                                                            \* neighbours: 1 and the next double, the two largest finite doubles, 0.3 and the next double
                                                            <<MAdd(MPow2(52), <<1>>), -52>>, <<MSub(MPow2(53), <<1>>), 971>>, <<MSub(MPow2(53), <<2>>), 971>>,
                                                            <<FromDigits(<<5, 4, 0, 4, 3, 1, 9, 5, 5, 2, 8, 4, 4, 5, 9, 5>>, 10), -54>>, <<FromDigits(<<5, 4, 0, 4, 3, 1, 9, 5, 5, 2, 8, 4, 4, 5, 9, 6>>, 10), -54>> } }
StrPool == { Str(s) : s \in { <<>>, <<97>>, <<97, 98>>, <<98>>, <<65>>, <<233>>, <<97, 233>>, <<65535>>, <<128049>>, <<97, 128049>>, <<0>>, <<97, 0>> } }
BytesPool == { Bytes(s) : s \in { <<>>, <<0>>, <<0, 0>>, <<97>>, <<97, 0>>, <<255>>, <<195, 169>>, <<128>> } }
BoolPool == { Bool(TRUE), Bool(FALSE) }
\* timestamps: microseconds since the epoch (instants); the written offset is a rendering dimension of the harness
Day == FromInt(86400)
Mega == FromInt(1000000)
Us(days, secs, us) == Add(Mul(Add(Mul(FromInt(days), Day), FromInt(secs)), Mega), FromInt(us))
TsPool == { Ts(x) : x \in { Us(0, 0, 0), Us(0, 0, 1), Us(0, 0, -1), Us(0, 1, 0), Us(-719162, 0, 0), Us(2932896, 86399, 999999),
                            Us(18262, 0, 0), Us(18262, 43200, 0), Us(18261, 86399, 999999), Us(11016, 0, 0) } }
DurMax == Mul(FromInt(315576), Mul(Mega, Mega))       \* 315,576,000,000 s in microseconds
DurPool == { Dur(x) : x \in { Z, One, FromInt(-1), Mega, Neg(Mega), DurMax, Neg(DurMax), Us(1, 0, 0) } }
L(s) == List(s)
ListIntPool == { L(<<>>), L(<<I(1)>>), L(<<I(1), I(2)>>), L(<<I(2), I(1)>>), L(<<I(1), I(2), I(3)>>), L(<<I(2)>>),
                 L(<<I(1), I(1)>>), L(<<IntV(IntMax(64))>>), L(<<IntV(IntMin(64))>>) }
ListNestPool == { L(<<>>), L(<<L(<<>>)>>), L(<<L(<<I(1)>>)>>), L(<<L(<<I(1)>>), L(<<I(2)>>)>>), L(<<L(<<I(1), I(2)>>)>>),
                  L(<<L(<<I(2)>>), L(<<I(1)>>)>>), L(<<L(<<>>), L(<<>>)>>) }
ListStrPool == { L(<<>>), L(<<S(<<97>>)>>), L(<<S(<<97>>), S(<<98>>)>>), L(<<S(<<98>>), S(<<97>>)>>), L(<<S(<<>>)>>), L(<<S(<<128049>>)>>), L(<<S(<<65535>>)>>) }
KA == S(<<97>>)
KB == S(<<98>>)
MapPool == { Map(<<>>), Map(<< <<KA, I(1)>> >>), Map(<< <<KA, I(2)>> >>), Map(<< <<KB, I(1)>> >>),
             Map(<< <<KA, I(1)>>, <<KB, I(2)>> >>), Map(<< <<KB, I(2)>>, <<KA, I(1)>> >>), Map(<< <<KA, I(2)>>, <<KB, I(1)>> >>),
             Map(<< <<KA, I(1)>>, <<KB, I(1)>> >>) }
MapNestPool == { Map(<<>>), Map(<< <<KA, L(<<I(1)>>)>> >>), Map(<< <<KA, L(<<I(1), I(2)>>)>> >>), Map(<< <<KA, L(<<>>)>> >>),
                 Map(<< <<KA, L(<<I(1)>>)>>, <<KB, L(<<>>)>> >>), Map(<< <<KB, L(<<>>)>>, <<KA, L(<<I(1)>>)>> >>) }
MapIntKeyPool == { Map(<<>>), Map(<< <<I(1), KA>> >>), Map(<< <<I(2), KA>> >>), Map(<< <<I(1), KB>> >>),
                   Map(<< <<I(1), KA>>, <<I(2), KB>> >>), Map(<< <<I(2), KB>>, <<I(1), KA>> >>) }
\* maps whose values are null: a key that is missing is not a key that holds null ({"a": null} # {"b": null})
KC == S(<<99>>)
MapNullPool == { Map(<<>>), Map(<< <<KA, Null>> >>), Map(<< <<KB, Null>> >>), Map(<< <<KA, Null>>, <<KB, Null>> >>), Map(<< <<KB, Null>>, <<KA, Null>> >>),
                 Map(<< <<KB, Null>>, <<KC, Null>> >>), Map(<< <<KC, Null>> >>) }
ListNullPool == { L(<<>>), L(<<Null>>), L(<<Null, Null>>) }
ListMapNullPool == { L(<<>>), L(<<Map(<< <<KA, Null>> >>)>>), L(<<Map(<< <<KB, Null>> >>)>>), L(<<Map(<<>>)>>), L(<<Map(<< <<KA, Null>> >>), Map(<< <<KB, Null>> >>)>>) }
Pool(f) == CASE f = "int" -> IntPool [] f = "uint" -> UintPool [] f = "double" -> DblPool [] f = "string" -> StrPool
             [] f = "bytes" -> BytesPool [] f = "bool" -> BoolPool [] f = "timestamp" -> TsPool [] f = "duration" -> DurPool
             [] f = "list_int" -> ListIntPool [] f = "list_nest" -> ListNestPool [] f = "list_str" -> ListStrPool
             [] f = "map" -> MapPool [] f = "map_nest" -> MapNestPool [] f = "map_intkey" -> MapIntKeyPool
             [] f = "map_null" -> MapNullPool [] f = "list_null" -> ListNullPool [] f = "list_mapnull" -> ListMapNullPool
IsOrdered(f) == f \in {"int", "uint", "double", "string", "bytes", "bool", "timestamp", "duration"}
Ops(f) == IF IsOrdered(f) THEN RelOps ELSE {"==", "!="}
Expected(f, x, y) == [o \in Ops(f) |-> Rel(o, x, y).v]

Init == fam \in FAMILIES /\ a \in Pool(fam) /\ b = a /\ exp = Expected(fam, a, a)
Next == b = a /\ b' \in Pool(fam) /\ UNCHANGED <<fam, a>> /\ exp' = Expected(fam, a, b')
Spec == Init /\ [][Next]_vars

Reflexive == Eq(a, a) /\ Eq(b, b)
Symmetric == Eq(a, b) = Eq(b, a)
NeIsNegation == exp["!="] = ~exp["=="]
Trichotomy == IsOrdered(fam) => /\ (exp["<"] \/ exp["=="] \/ exp[">"])
                                /\ ~(exp["<"] /\ exp["=="]) /\ ~(exp["<"] /\ exp[">"]) /\ ~(exp["=="] /\ exp[">"])
Converse == IsOrdered(fam) => (exp["<"] = Rel(">", b, a).v /\ exp["<="] = Rel(">=", b, a).v)
LeDecomposition == IsOrdered(fam) => (exp["<="] = (exp["<"] \/ exp["=="]) /\ exp[">="] = (exp[">"] \/ exp["=="]))
Transitive == IsOrdered(fam) => \A c \in Pool(fam) : (Lt(a, b) /\ Lt(b, c) => Lt(a, c)) /\ (Eq(a, b) /\ Eq(b, c) => Eq(a, c))
EqTransitive == \A c \in Pool(fam) : (Eq(a, b) /\ Eq(b, c)) => Eq(a, c)
\* container congruence: wrapping both sides in a list / as a map value preserves (in)equality
Congruence == /\ Eq(List(<<a>>), List(<<b>>)) = Eq(a, b)
              /\ Eq(Map(<< <<KA, a>> >>), Map(<< <<KA, b>> >>)) = Eq(a, b)
              /\ Eq(List(<<a, b>>), List(<<b, a>>)) = Eq(a, b)
Definite == SameShape(a, b)
=============================================================================
