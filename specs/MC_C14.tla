---------------------------- MODULE MC_C14 ----------------------------
(* C14 model: call shapes of application-supplied functions (global / method form, 0-3 arguments, nested, inside the
   error-absorbing operators and inside macro bodies), a supplied function that shadows the built-in size, and unbound
   names.  exp = Eval(prog, env) and calls = Calls(prog, env) depend on the call shape only: the way the functions are
   supplied (list / dict; module-level def, nested def, lambda, callable object) and the runner class are NOT inputs of
   the specification -- uniformity over them is what the harness checks for every state. *)
EXTENDS CelEval, TLC
CONSTANT TIER
VARIABLES prog, ovr, exp, calls
vars == <<prog, ovr, exp, calls>>
I(n) == IntV(FromInt(n))
S(s) == Str(s)
Args == { Lit(I(1)), Lit(S(<<115>>)), Lit(List(<<I(2), I(3)>>)) }
        \cup (IF TIER = "thorough" THEN { Lit(Null), Lit(UintV(FromInt(2))), Lit(Dur(MegaB)), Lit(Map(<< <<S(<<107>>), I(1)>>, <<S(<<108>>), I(2)>>, <<S(<<109>>), I(3)>> >>)), Lit(Bytes(<<255>>)), Lit(I(-7)) } ELSE {})   \* (TLC cannot order two records whose v fields are equally long sequences of different kinds)
A1 == Lit(I(1))  A2 == Lit(S(<<115>>))
X == Var("x")
ErrArg == Bin("/", A1, Lit(I(0)))
Echo(as) == Call("hecho", as)
Fail == { Call("herr", <<>>), Call("hval", <<A1>>), Call("htyp", <<A1, A2>>), MCall(A1, "herr", <<>>), Call("hnone", <<A1>>), MCall(A1, "hnone", <<>>),
          \* (the harness's hval / htyp raise an exception WITHOUT message when given two / one arguments)
          MCall(A1, "hval", <<A2>>), Call("hval", <<A1, A2>>), MCall(A1, "htyp", <<>>), Call("htyp", <<A2>>) }
T == Lit(Bool(TRUE))  F == Lit(Bool(FALSE))
Roots ==
       { Call("hzero", <<>>), Echo(<<>>) } \cup { Echo(<<a>>) : a \in Args } \cup { Echo(<<a, b>>) : a \in Args, b \in Args }
  \cup { Echo(<<a, b, A1>>) : a \in Args, b \in Args }
  \cup { MCall(a, "hecho", <<>>) : a \in Args } \cup { MCall(a, "hecho", <<b>>) : a \in Args, b \in Args } \cup { MCall(a, "hecho", <<b, A2>>) : a \in Args, b \in Args }
  \cup { Echo(<<Echo(<<a>>), MCall(a, "hecho", <<>>)>>) : a \in Args }
  \cup { Bin("+", Echo(<<A1>>), Echo(<<A2>>)), Idx(Echo(<<A1, A2>>), A1), Call("size", <<Echo(<<A1, A2>>)>>) }
  \* the same call written twice / reached twice with equal arguments: once per call site REACHED, no remembering of results
  \cup { Bin("+", Echo(<<A1>>), Echo(<<A1>>)), ListE(<<Call("hzero", <<>>), Call("hzero", <<>>)>>), ListE(<<MCall(A1, "hecho", <<>>), Echo(<<A1>>)>>),
          Macro("map", Lit(List(<<I(1), I(1), I(2)>>)), "x", Echo(<<X>>)), Macro("map", Lit(List(<<I(1), I(1)>>)), "x", Call("hzero", <<>>)),
          Echo(<<Echo(<<A1>>), Echo(<<A1>>)>>) }
  \cup Fail
  \* an argument whose evaluation fails: the call is that error (the function is not invoked with a non-value)
  \cup { Echo(<<ErrArg>>), Echo(<<A1, ErrArg>>), Echo(<<ErrArg, A2>>), MCall(ErrArg, "hecho", <<>>), MCall(A1, "hecho", <<ErrArg>>), Call("hzero", <<ErrArg>>) }
  \cup { Echo(<<f>>) : f \in Fail } \cup { Bin("||", Echo(<<ErrArg>>), T), Bin("&&", F, MCall(ErrArg, "hecho", <<>>)), CondE(T, A1, Echo(<<ErrArg>>)),
          CondE(Bin("==", Call("size", <<Echo(<<ErrArg>>)>>), A1), A1, A2), Bin("==", Call("size", <<Echo(<<ErrArg>>)>>), A1) }
  \cup { Bin("||", f, T) : f \in Fail } \cup { Bin("||", T, f) : f \in Fail } \cup { Bin("&&", f, F) : f \in Fail } \cup { Bin("&&", F, f) : f \in Fail }
  \cup { Bin("||", f, F) : f \in Fail } \cup { Bin("&&", T, f) : f \in Fail }
  \cup { CondE(T, A1, f) : f \in Fail } \cup { CondE(F, f, A1) : f \in Fail } \cup { CondE(f, A1, A2) : f \in Fail } \cup { CondE(T, f, A1) : f \in Fail }
  \cup { ListE(<<Echo(<<A1>>), f>>) : f \in Fail } \cup { Un("!", f) : f \in Fail }
  \cup { CondE(T, Echo(<<A1>>), Echo(<<A2>>)), CondE(F, Echo(<<A1>>), Echo(<<A2>>)) }
  \cup { Macro("map", Lit(List(<<I(1), I(2)>>)), "x", Echo(<<X>>)), Macro("map", Lit(List(<<I(1), I(2)>>)), "x", MCall(X, "hecho", <<A2>>)),
         Macro("filter", Lit(List(<<I(1), I(2)>>)), "x", Bin(">", Idx(Echo(<<X>>), Lit(I(0))), Lit(I(1)))),
         Macro("exists_one", Lit(List(<<I(1), I(2)>>)), "x", Bin("==", Idx(Echo(<<X>>), Lit(I(0))), Lit(I(2)))),
         Macro("map", Lit(List(<<>>)), "x", Echo(<<X>>)) }
  \cup { Macro("exists", Lit(List(<<I(1), I(2)>>)), "x", Bin("||", f, Bin("==", X, Lit(I(2))))) : f \in Fail }
  \cup { Macro("all", Lit(List(<<I(1), I(2)>>)), "x", Bin("&&", f, Bin("==", X, Lit(I(2))))) : f \in Fail }
Deeper == IF TIER # "thorough" THEN {} ELSE
       { Bin(o, Bin(o2, f, c), c2) : o \in {"||", "&&"}, o2 \in {"||", "&&"}, f \in Fail, c \in {T, F}, c2 \in {T, F} }
  \cup { CondE(c, Bin("||", f, T), Bin("&&", f, F)) : c \in {T, F}, f \in Fail }
  \cup { Echo(<<Echo(<<Echo(<<a>>), b>>), MCall(a, "hecho", <<b>>)>>) : a \in Args, b \in Args }
  \cup { Macro(m, Lit(List(<<I(1), I(2), I(3)>>)), "x", Bin("||", Bin("==", Idx(Echo(<<X, a>>), Lit(I(0))), Lit(I(2))), f)) : m \in {"exists", "all", "exists_one", "filter"}, a \in Args, f \in Fail }
  \cup { Macro("map", Lit(List(<<I(1), I(2)>>)), "x", Macro("map", Lit(List(<<I(10)>>)), "y", Echo(<<X, Var("y"), a>>))) : a \in Args }
SizeRoots == { Call("size", <<Lit(List(<<I(1), I(2)>>))>>), MCall(Lit(List(<<I(1), I(2)>>)), "size", <<>>), Call("size", <<Lit(S(<<97, 98, 99>>))>>),
               Bin("+", Call("size", <<Lit(List(<<I(1), I(2)>>))>>), Lit(I(1))),
               \* the overriding function is this program's "size" at EVERY call site: inside macro bodies (function and method form), under the
               \* absorbing operators and in a conditional's branch
               Macro("map", Lit(List(<<S(<<97>>), S(<<98, 98>>)>>)), "x", Call("size", <<X>>)), Macro("map", Lit(List(<<S(<<97>>), S(<<98, 98>>)>>)), "x", MCall(X, "size", <<>>)),
               Macro("filter", Lit(List(<<S(<<97>>), S(<<98, 98>>)>>)), "x", Bin(">", Call("size", <<X>>), Lit(I(0)))),
               Macro("all", Lit(List(<<S(<<97>>), S(<<98, 98>>)>>)), "x", Bin("<", MCall(X, "size", <<>>), Lit(I(0)))),
               Macro("exists_one", Lit(List(<<S(<<97>>), S(<<98, 98>>)>>)), "x", Bin("==", Call("size", <<X>>), Lit(I(2)))),
               Macro("map", Lit(List(<<I(1)>>)), "x", Macro("map", Lit(List(<<S(<<97>>)>>)), "y", Call("size", <<Var("y")>>))),
               CondE(T, Call("size", <<Lit(S(<<97, 98, 99>>))>>), Lit(I(0))), Bin("||", Bin("<", Call("size", <<Lit(S(<<97>>))>>), Lit(I(0))), F) }
Env(o) == IF o THEN << <<"__override_size", Bool(TRUE)>> >> ELSE <<>>
Init == prog = Lit(Null) /\ ovr = FALSE /\ exp = Null /\ calls = <<>>
Next == /\ prog = Lit(Null)
        /\ \/ (\E p \in Roots \cup Deeper : prog' = p /\ ovr' = FALSE)
           \/ (\E p \in SizeRoots, o \in BOOLEAN : prog' = p /\ ovr' = o)
        /\ exp' = Eval(prog', Env(ovr')) /\ calls' = Calls(prog', Env(ovr'))
Spec == Init /\ [][Next]_vars
\* f(a, b) and a.f(b) are the same call
MethodIsFunction == (prog.k = "mcall" /\ prog.f \in HostNames) => exp = Eval(Call(prog.f, <<prog.x>> \o prog.args), Env(ovr))
\* a failing host function is an ordinary evaluation error: absorbed by the deciding operand / unselected branch
Absorbed == /\ (prog.k = "bin" /\ prog.op = "||" /\ (prog.l = T \/ prog.r = T)) => exp = Bool(TRUE)
            /\ (prog.k = "bin" /\ prog.op = "&&" /\ (prog.l = F \/ prog.r = F)) => exp = Bool(FALSE)
            /\ (prog.k = "cond" /\ prog.c = T /\ prog.a = A1) => exp = I(1)
            /\ (prog \in Fail) => exp = Err
Strict == (prog.k = "call" /\ prog.f = "hecho" /\ \E j \in 1..Len(prog.args) : prog.args[j] = ErrArg) => (exp = Err /\ calls = <<>>)
OverrideOnlyWhenSupplied == (prog \in SizeRoots /\ ~ovr) => calls = <<>>
=============================================================================
