---------------------------- MODULE CelJson ----------------------------
(* JSON documents and their CEL image (C15).
   A JSON document:  [j |-> "null"] | [j |-> "bool", v] | [j |-> "int", neg, m] (an integer literal within int64)
                   | [j |-> "float", c, neg, m, e] (any other number: the binary64 it denotes) | [j |-> "str", v (code points)]
                   | [j |-> "arr", v (sequence)] | [j |-> "obj", v (sequence of <<key code points, document>>, keys distinct)]
   ToCel maps null, booleans, integers, floats, strings, arrays and objects to null, bool, int, double, string, list and map --
   booleans never become integers -- and Encode maps the CEL value back to the document.  Navigate follows a path of
   field names / indexes.  Timestamps, durations and bytes encode as RFC 3339 text, seconds text and base64. *)
EXTENDS CelEval
JNull == [j |-> "null"]
RECURSIVE ToCel(_), Encode(_)
ToCel(d) == CASE d.j = "null" -> Null
              [] d.j = "bool" -> Bool(d.v)
              [] d.j = "int" -> IntV(Mk(d.neg, d.m))
              [] d.j = "float" -> [t |-> "double", c |-> d.c, neg |-> d.neg, m |-> d.m, e |-> d.e]
              [] d.j = "str" -> Str(d.v)
              [] d.j = "arr" -> List([k \in 1..Len(d.v) |-> ToCel(d.v[k])])
              [] d.j = "obj" -> Map([k \in 1..Len(d.v) |-> <<Str(d.v[k][1]), ToCel(d.v[k][2])>>])
B64Char(n) == IF n < 26 THEN 65 + n ELSE IF n < 52 THEN 71 + n ELSE IF n < 62 THEN n - 4 ELSE IF n = 62 THEN 43 ELSE 47
RECURSIVE Base64(_)
Base64(s) == IF s = <<>> THEN <<>>
             ELSE IF Len(s) = 1 THEN <<B64Char(s[1] \div 4), B64Char((s[1] % 4) * 16), 61, 61>>
             ELSE IF Len(s) = 2 THEN <<B64Char(s[1] \div 4), B64Char((s[1] % 4) * 16 + (s[2] \div 16)), B64Char((s[2] % 16) * 4), 61>>
             ELSE <<B64Char(s[1] \div 4), B64Char((s[1] % 4) * 16 + (s[2] \div 16)), B64Char((s[2] % 16) * 4 + (s[3] \div 64)), B64Char(s[3] % 64)>> \o Base64(SubSeq(s, 4, Len(s)))
Encode(v) == CASE v.t = "null" -> JNull
               [] v.t = "bool" -> [j |-> "bool", v |-> v.v]
               [] v.t = "int" -> [j |-> "int", neg |-> v.neg, m |-> v.m]
               [] v.t = "uint" -> [j |-> "int", neg |-> FALSE, m |-> v.m]
               [] v.t = "double" -> [j |-> "float", c |-> v.c, neg |-> v.neg, m |-> v.m, e |-> v.e]
               [] v.t = "string" -> [j |-> "str", v |-> v.v]
               [] v.t = "list" -> [j |-> "arr", v |-> [k \in 1..Len(v.v) |-> Encode(v.v[k])]]
               [] v.t = "map" -> [j |-> "obj", v |-> [k \in 1..Len(v.v) |-> <<v.v[k][1].v, Encode(v.v[k][2])>>]]
               [] v.t = "timestamp" -> [j |-> "str", v |-> Rfc3339(BigOf(v))]
               [] v.t = "duration" -> [j |-> "str", v |-> DurText(BigOf(v))]
               [] v.t = "bytes" -> [j |-> "str", v |-> Base64(v.v)]
               [] OTHER -> [j |-> "indef"]              \* type values: no JSON form is defined
\* a path step: <<"f", key code points>> (object member) or <<"i", n>> (array index, from 0)
RECURSIVE JNavigate(_,_)
JNavigate(d, p) == IF p = <<>> THEN d
                   ELSE IF p[1][1] = "f" THEN JNavigate(d.v[CHOOSE k \in 1..Len(d.v) : d.v[k][1] = p[1][2]][2], Tail(p))
                   ELSE JNavigate(d.v[p[1][2] + 1], Tail(p))
RECURSIVE Paths(_)
Paths(d) == {<<>>} \cup
   (IF d.j = "arr" THEN UNION { { <<<<"i", k - 1>>>> \o q : q \in Paths(d.v[k]) } : k \in 1..Len(d.v) }
    ELSE IF d.j = "obj" THEN UNION { { <<<<"f", d.v[k][1]>>>> \o q : q \in Paths(d.v[k][2]) } : k \in 1..Len(d.v) }
    ELSE {})
\* the same path followed in CEL: .field / ["key"] are both a map lookup, [i] a list index
RECURSIVE CelNavigate(_,_)
CelNavigate(v, p) == IF p = <<>> THEN v
                     ELSE IF p[1][1] = "f" THEN CelNavigate(Index(v, Str(p[1][2])), Tail(p))
                     ELSE CelNavigate(Index(v, IntV(FromInt(p[1][2]))), Tail(p))
=============================================================================
