---------------------------- MODULE Trace_C20 ----------------------------
(* Code -> spec: random NDJSON runs of the command line: [expr, b, docs, lines (what stdout held, one entry per input line that
   produced output, as JSON documents), status].  Accepted iff stdout and exit status are what CelCli prescribes. *)
EXTENDS CelCli, TLC, Json, IOUtils
Trace == ndJsonDeserialize(IOEnv.TRACE_FILE)
VARIABLE i
Wanted(e) == Lines(e.expr, <<>>, e.docs)

RECURSIVE SelectSeqNoLine(_)
SelectSeqNoLine(w) == IF w = <<>> THEN <<>> ELSE (IF w[1] = NoLine THEN <<>> ELSE <<w[1]>>) \o SelectSeqNoLine(Tail(w))
RECURSIVE SameDoc(_,_)
SameDoc(a, b) == IF a.j # b.j THEN FALSE
                 ELSE IF a.j = "arr" THEN Len(a.v) = Len(b.v) /\ \A k \in 1..Len(a.v) : SameDoc(a.v[k], b.v[k])
                 ELSE IF a.j = "obj" THEN Len(a.v) = Len(b.v) /\ \A k \in 1..Len(a.v) : \E k2 \in 1..Len(b.v) : a.v[k][1] = b.v[k2][1] /\ SameDoc(a.v[k][2], b.v[k2][2])
                 ELSE a = b
Why(e) == LET w == SelectSeqNoLine(Wanted(e))  st == Worst(e.expr, <<>>, e.docs, e.b) IN
          IF Len(w) # Len(e.lines) THEN "number of output lines"
          ELSE IF \E k \in 1..Len(w) : w[k].j # "indef" /\ ~SameDoc(w[k], e.lines[k]) THEN "an output line"
          ELSE IF ~StatusOK(st, e.status) THEN "exit status" ELSE "ok"
Init == i = 1 /\ TLCSet(1, <<>>)
Next == /\ i <= Len(Trace) /\ i' = i + 1
        /\ LET y == Why(Trace[i]) IN y = "ok" \/ TLCSet(1, Append(TLCGet(1), <<i, y>>))
Post == /\ PrintT(<<"REJECTED", TLCGet(1)>>)
        /\ PrintT(<<"CONSUMED", TLCGet("stats").diameter - 1, Len(Trace), 0>>)
=============================================================================
