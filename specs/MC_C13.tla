---------------------------- MODULE MC_C13 ----------------------------
(* C13 model: well-typed expressions with every operator, function and macro at the root (and nested one level under a
   conditional or a list index), typed operands drawn from small pools; exp = Eval(prog), ty = its CEL type name.
   The harness checks the Python class of the value handed back and that `type(prog) == T` holds exactly for T = ty. *)
EXTENDS CelEval, TLC
VARIABLES prog, exp, ty
vars == <<prog, exp, ty>>
I(n) == IntV(FromInt(n))
U(n) == UintV(FromInt(n))
D(m, e) == Fin(FALSE, m, e)
S(s) == Str(s)
LI(s) == List([j \in 1..Len(s) |-> I(s[j])])
Day == Mul(FromInt(86400), MegaB)
CONSTANT TIER
Pool0(t) == CASE t = "int" -> {I(3), I(-2)} [] t = "uint" -> {U(5), U(2)} [] t = "double" -> {D(<<3>>, -1), D(<<1>>, 1), Zero(FALSE)}
             [] t = "string" -> {S(<<97>>), S(<<98, 99>>)} [] t = "bytes" -> {Bytes(<<97>>), Bytes(<<0, 255>>)}
             [] t = "list" -> {LI(<<1, 2>>), LI(<<>>)} [] t = "bool" -> {Bool(TRUE), Bool(FALSE)}
             [] t = "map" -> {Map(<< <<S(<<97>>), I(1)>> >>), Map(<<>>)} [] t = "null" -> {Null}
             [] t = "timestamp" -> {Ts(Mul(FromInt(18262), Day)), Ts(Z)} [] t = "duration" -> {Dur(MegaB), Dur(Day)}
             [] t = "type" -> {Type("int"), Type("string"), Type("null_type"), Type("type")}
\* the thorough tier doubles the pools (boundary values of each type)
PoolX(t) == CASE t = "int" -> {I(0), IntV(IntMax(64)), IntV(IntMin(64))} [] t = "uint" -> {U(0), UintV(UintMax(64))}
              [] t = "double" -> {D(<<1>>, -1074), D(<<1>>, 1023), Zero(TRUE)} [] t = "string" -> {S(<<>>), S(<<128049>>)}
              [] t = "bytes" -> {Bytes(<<>>), Bytes(<<195, 169>>)} [] t = "list" -> {LI(<<0>>), LI(<<3, 3, 3>>)}
              [] t = "timestamp" -> {Ts(TsMin), Ts(TsMax)} [] t = "duration" -> {Dur(Z), Dur(Neg(Day))}
              [] OTHER -> {}
Pool(t) == Pool0(t) \cup (IF TIER = "thorough" THEN PoolX(t) ELSE {})
Types == {"int", "uint", "double", "string", "bytes", "list", "bool", "map", "null", "timestamp", "duration", "type"}
L2(t) == { Lit(v) : v \in Pool(t) }
ArithOps(t) == CASE t \in {"int", "uint"} -> {"+", "-", "*", "/", "%"} [] t = "double" -> {"+", "-", "*", "/"}
                 [] t \in {"string", "bytes", "list"} -> {"+"} [] t = "duration" -> {"+", "-"} [] OTHER -> {}
OrderedT == {"int", "uint", "double", "string", "bytes", "bool", "timestamp", "duration"}
X == Var("x")
\* no / one / several / only matching elements: every exit of the macros' loops
MacroLists == L2("list") \cup { Lit(LI(<<2, 3, 1>>)), Lit(LI(<<0, 1>>)), Lit(LI(<<5, 5, 5>>)), Lit(LI(<<7>>)) }
\* macros over a map range over its keys; filter / map give a LIST whatever the range was and however many elements pass
KeyMaps == { Lit(Map(<< <<S(<<97>>), I(1)>>, <<S(<<98>>), I(2)>> >>)), Lit(Map(<< <<S(<<97>>), I(1)>> >>)), Lit(Map(<<>>)) }
KeyPreds == { Bin("!=", X, Lit(S(<<122>>))), Bin("==", X, Lit(S(<<97>>))), Lit(Bool(FALSE)) }
Roots ==
     UNION { { Bin(o, a, b) : o \in ArithOps(t), a \in L2(t), b \in L2(t) } : t \in Types }
  \cup { Bin(o, a, b) : o \in {"+", "-"}, a \in L2("timestamp"), b \in L2("duration") }
  \cup { Bin("+", a, b) : a \in L2("duration"), b \in L2("timestamp") }
  \cup { Bin("-", a, b) : a \in L2("timestamp"), b \in L2("timestamp") }
  \cup UNION { { Bin(o, a, b) : o \in RelOps, a \in L2(t), b \in L2(t) } : t \in OrderedT }
  \cup UNION { { Bin(o, a, b) : o \in {"==", "!="}, a \in L2(t), b \in L2(t) } : t \in {"list", "map", "null", "type"} }
  \cup { Un("-", a) : a \in L2("int") \cup L2("double") } \cup { Un("!", a) : a \in L2("bool") }
  \cup { Bin(o, a, b) : o \in {"&&", "||"}, a \in L2("bool"), b \in L2("bool") }
  \cup { Bin("in", a, b) : a \in L2("int"), b \in L2("list") } \cup { Bin("in", a, b) : a \in L2("string"), b \in L2("map") }
  \cup { Has(m, <<97>>) : m \in L2("map") } \cup { Sel(Lit(Map(<< <<S(<<97>>), v>> >>)), <<97>>) : v \in UNION { Pool(t) : t \in Types \ {"type"} } }
  \cup { Idx(Lit(List(<<v>>)), Lit(I(0))) : v \in UNION { Pool(t) : t \in Types \ {"type"} } }
  \cup { MCall(a, f, <<b>>) : f \in {"contains", "startsWith", "endsWith"}, a \in L2("string"), b \in L2("string") }
  \cup { Call("size", <<a>>) : a \in L2("string") \cup L2("bytes") \cup L2("list") \cup L2("map") }
  \cup { MCall(a, "size", <<>>) : a \in L2("string") \cup L2("list") }
  \cup { Macro(m, l, "x", p) : m \in {"all", "exists", "exists_one", "filter"}, l \in MacroLists, p \in {Bin(">", X, Lit(I(1))), Lit(Bool(TRUE)), Bin("<", X, Lit(I(0)))} }
  \cup { Macro(m, l, "x", p) : m \in {"all", "exists", "exists_one", "filter"}, l \in KeyMaps, p \in KeyPreds }
  \cup { Macro("map", l, "x", b) : l \in KeyMaps, b \in {X, Lit(I(1))} }
  \cup { Macro("map", l, "x", b) : l \in MacroLists, b \in {Bin("*", X, Lit(I(2))), Bin(">", X, Lit(I(1))), Lit(S(<<97>>))} }
  \cup { ListE(<<a>>) : a \in L2("int") \cup L2("string") } \cup { MapE(<< <<a, b>> >>) : a \in L2("string"), b \in L2("int") }
  \cup UNION { L2(t) : t \in Types }
  \cup { Call("type", <<a>>) : a \in UNION { L2(t) : t \in Types } }
Init == prog = Lit(Null) /\ exp = Null /\ ty = "init"
Mk3(p) == prog' = p /\ exp' = Eval(p, <<>>) /\ ty' = (IF exp'.t \in {"err", "indef"} THEN exp'.t ELSE TypeName(exp'))
Next == \/ (ty = "init" /\ \E p \in Roots : Mk3(p))
        \/ (ty \notin {"init", "done"} /\ prog.k \notin {"cond", "idx", "lit"} /\
              \/ \E c \in L2("bool") : Mk3(CondE(c, prog, prog))
              \/ Mk3(Idx(ListE(<<prog>>), Lit(I(0)))))
Spec == Init /\ [][Next]_vars
\* type(x op y) = type(x) for arithmetic, concatenation and time arithmetic (with CEL's timestamp - timestamp = duration)
ArithKeepsType == (prog.k = "bin" /\ prog.op \in BinOps /\ prog.l.k = "lit" /\ prog.r.k = "lit" /\ exp.t \notin {"err", "indef"}) =>
     IF prog.l.v.t = "timestamp" /\ prog.r.v.t = "timestamp" THEN ty = "duration"
     ELSE IF prog.l.v.t = "duration" /\ prog.r.v.t = "timestamp" THEN ty = "timestamp"
     ELSE ty = prog.l.v.t
PredicatesAreBool == ((prog.k = "bin" /\ prog.op \in RelOps \cup {"in", "&&", "||"}) \/ prog.k = "has"
                       \/ (prog.k = "mcall" /\ prog.f \in {"contains", "startsWith", "endsWith"})
                       \/ (prog.k = "macro" /\ prog.m \in {"all", "exists", "exists_one"})) /\ exp.t \notin {"err", "indef"} => ty = "bool"
TypeOfType == (prog.k = "call" /\ prog.f = "type" /\ exp.t # "indef") => ty = "type"
=============================================================================
