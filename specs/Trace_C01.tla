---------------------------- MODULE Trace_C01 ----------------------------
(* Code -> spec: a batch of operator events recorded from the implementation
   (random 64-bit operands, every path) is validated against CelArith.
   Event: [ty, op, a, b, out]; integers as limb records, doubles as exact dyadics. *)
EXTENDS CelArith, TLC, Json, IOUtils
Trace == ndJsonDeserialize(IOEnv.TRACE_FILE)
W == 64
VARIABLE i
Num(x) == Mk(x.neg, x.m)
Dbl(x) == [t |-> "double", c |-> x.c, neg |-> x.neg, m |-> x.m, e |-> x.e]
Expected(e) ==
  CASE e.ty = "int" -> IF e.op = "neg" THEN IntNeg(W, Num(e.a)) ELSE IntOp(W, e.op, Num(e.a), Num(e.b))
    [] e.ty = "uint" -> IF e.op = "neg" THEN UintNeg(W, Num(e.a)) ELSE UintOp(W, e.op, Num(e.a), Num(e.b))
    [] e.ty = "double" -> IF e.op = "neg" THEN DNeg(Dbl(e.a)) ELSE DOp(e.op, Dbl(e.a), Dbl(e.b))
Observed(e) ==
  IF e.out.t = "err" THEN Err
  ELSE IF e.out.t = "double" THEN Dbl(e.out)
  ELSE [t |-> e.out.t, neg |-> e.out.neg, m |-> e.out.m]
EventOK(e) == LET x == Expected(e) IN x = Indef \/ x = Observed(e)
Init == i = 1 /\ TLCSet(1, <<>>) /\ TLCSet(2, 0)
Next == /\ i <= Len(Trace) /\ i' = i + 1
        /\ IF EventOK(Trace[i]) THEN (IF Expected(Trace[i]) = Indef THEN TLCSet(2, TLCGet(2) + 1) ELSE TRUE)
           ELSE TLCSet(1, Append(TLCGet(1), <<i, Expected(Trace[i])>>))
Post == /\ PrintT(<<"REJECTED", TLCGet(1)>>)
        /\ PrintT(<<"CONSUMED", TLCGet("stats").diameter - 1, Len(Trace), TLCGet(2)>>)
=============================================================================
