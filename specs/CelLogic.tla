---------------------------- MODULE CelLogic ----------------------------
(* CEL logical operators on outcome classes (C02):
     "T" true, "F" false, "E" evaluation error, "N1" / "N2" two distinguishable non-boolean values,
     "I" = the language definition as quoted by the property does not fix the outcome (never compared).
   a && b : false if either operand is false (whatever the other is: error, non-boolean, anything);
            true if both are true; an error for every other combination of booleans and errors;
            an error for two non-booleans.   a || b is the dual.
   c ? x : y : exactly the outcome of the selected branch; error or non-boolean c is an error.
   !        : maps an error to an error.   all / exists : folds of && / || over the element outcomes.  *)
EXTENDS Integers, Sequences
Classes == {"T", "F", "E", "N1", "N2"}
IsN(v) == v \in {"N1", "N2"}
And(a, b) == IF a = "F" \/ b = "F" THEN "F"
             ELSE IF a = "I" \/ b = "I" THEN "I"
             ELSE IF a = "T" /\ b = "T" THEN "T"
             ELSE IF IsN(a) /\ IsN(b) THEN "E"
             ELSE IF IsN(a) \/ IsN(b) THEN "I"        \* true && 1, error && 1: not fixed by the statement
             ELSE "E"
Dual(v) == CASE v = "T" -> "F" [] v = "F" -> "T" [] OTHER -> v
Or(a, b) == Dual(And(Dual(a), Dual(b)))
Not(a) == CASE a = "T" -> "F" [] a = "F" -> "T" [] a = "E" -> "E" [] OTHER -> "I"
Cond(c, x, y) == CASE c = "T" -> x [] c = "F" -> y [] c = "I" -> "I" [] OTHER -> "E"
RECURSIVE FoldAnd(_), FoldOr(_)
FoldAnd(s) == IF s = <<>> THEN "T" ELSE And(s[1], FoldAnd(Tail(s)))
FoldOr(s) == IF s = <<>> THEN "F" ELSE Or(s[1], FoldOr(Tail(s)))

\* programs: leaves [k |-> class] ; [k |-> "and"|"or", a, b] ; [k |-> "not", a] ; [k |-> "cond", c, a, b]
\*           [k |-> "all"|"exists", s |-> <<classes>>]
RECURSIVE Ev(_)
Ev(x) == CASE x.k \in Classes -> x.k
           [] x.k = "and" -> And(Ev(x.a), Ev(x.b))
           [] x.k = "or" -> Or(Ev(x.a), Ev(x.b))
           [] x.k = "not" -> Not(Ev(x.a))
           [] x.k = "cond" -> Cond(Ev(x.c), Ev(x.a), Ev(x.b))
           [] x.k = "all" -> FoldAnd(x.s)
           [] x.k = "exists" -> FoldOr(x.s)
RECURSIVE Size(_)
Size(x) == CASE x.k \in {"and", "or"} -> 1 + Size(x.a) + Size(x.b)
             [] x.k = "not" -> 1 + Size(x.a)
             [] x.k = "cond" -> 1 + Size(x.c) + Size(x.a) + Size(x.b)
             [] OTHER -> 1
=============================================================================
