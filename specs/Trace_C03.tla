---------------------------- MODULE Trace_C03 ----------------------------
(* C03: Evaluate is ONE action of the specification, parametrised by the runner, whose outcome does not depend on the
   runner.  Each event carries the outcomes the two runner classes produced for the same (expression, activation):
       [oi, oc]   each  a value in wire form | [t |-> "err"] | [t |-> "exc"] (a Python exception, or a failure in
                  Environment.program) | [t |-> "parse"] | [t |-> "opaque", r |-> repr] (a value outside the modelled universe)
   SameOutcome: an equal value of the same CEL type, or an evaluation error in both.  A construction failure or a
   Python exception on one side only is never acceptable (both sides failing that way is C04's subject). *)
EXTENDS CelValue, TLC, Json, IOUtils
Trace == ndJsonDeserialize(IOEnv.TRACE_FILE)
VARIABLE i
IsValue(o) == o.t \in {"int", "uint", "double", "bool", "null", "string", "bytes", "list", "map", "timestamp", "duration", "type"}
RECURSIVE SameVal(_,_)
SameVal(a, b) ==
  IF a.t # b.t THEN FALSE
  ELSE CASE a.t = "double" -> (IF a.c = "nan" \/ b.c = "nan" THEN a.c = b.c ELSE a = b)       \* -0.0 and 0.0 are different outcomes
         [] a.t = "list" -> Len(a.v) = Len(b.v) /\ \A j \in 1..Len(a.v) : SameVal(a.v[j], b.v[j])
         [] a.t = "map" -> Len(a.v) = Len(b.v) /\ \A j \in 1..Len(a.v) : \E k \in 1..Len(b.v) : SameVal(a.v[j][1], b.v[k][1]) /\ SameVal(a.v[j][2], b.v[k][2])
         [] OTHER -> a = b
SameOutcome(a, b) ==
  CASE a.t = "err" /\ b.t = "err" -> TRUE
    [] a.t = "parse" /\ b.t = "parse" -> TRUE
    [] a.t = "exc" /\ b.t = "exc" -> TRUE
    [] a.t = "opaque" /\ b.t = "opaque" -> a.r = b.r
    [] IsValue(a) /\ IsValue(b) -> SameVal(a, b)
    [] OTHER -> FALSE
EventOK(e) == SameOutcome(e.oi, e.oc)
Init == i = 1 /\ TLCSet(1, <<>>)
Next == /\ i <= Len(Trace) /\ i' = i + 1
        /\ (EventOK(Trace[i]) \/ TLCSet(1, Append(TLCGet(1), <<i, "differ">>)))
Post == /\ PrintT(<<"REJECTED", TLCGet(1)>>)
        /\ PrintT(<<"CONSUMED", TLCGet("stats").diameter - 1, Len(Trace), 0>>)
=============================================================================
