---------------------------- MODULE Trace_C04 ----------------------------
(* Code -> spec for compile() and evaluate(): events recorded from Environment.compile on arbitrary strings
   and from Runner.evaluate on generated programs ([kind: "val" | "err" | anything else]).
   [lens: the lengths of the text's lines, kind: "tree" | "parse", line, col]
   The specification admits exactly: a tree, or a parse error located inside the text
   (1 <= line <= number of lines, 1 <= column <= length of that line + 1). *)
EXTENDS Integers, Sequences, TLC, Json, IOUtils
Trace == ndJsonDeserialize(IOEnv.TRACE_FILE)
VARIABLE i
Located(e) == /\ e.line >= 1 /\ e.line <= Len(e.lens)
              /\ e.col >= 1 /\ e.col <= e.lens[e.line] + 1
\* compile: a tree or a located parse error;  evaluate: a CEL value or an evaluation error.  Nothing else is a behaviour.
EventOK(e) == e.kind \in {"tree", "val", "err"} \/ (e.kind = "parse" /\ Located(e))
Init == i = 1 /\ TLCSet(1, <<>>)
Next == /\ i <= Len(Trace) /\ i' = i + 1
        /\ (EventOK(Trace[i]) \/ TLCSet(1, Append(TLCGet(1), <<i, "unlocated">>)))
Post == /\ PrintT(<<"REJECTED", TLCGet(1)>>)
        /\ PrintT(<<"CONSUMED", TLCGet("stats").diameter - 1, Len(Trace), 0>>)
=============================================================================
