---------------------------- MODULE C7nValue ----------------------------
(* What a Custodian `type: value` clause means (C19): the comparison op names a relation between the resource attribute r and
   the literal v; value_type transforms one side first.  Also the contracts for the literals the translator emits:
   a quoted policy string must decode (CelLiteral) to exactly that string, and a day / second count must become a duration
   literal denoting that many seconds (celpy's duration text additionally accepts the unit d = 86400 s). *)
EXTENDS C7nLib
Ops == {"eq", "equal", "ne", "not-equal", "gt", "greater-than", "ge", "gte", "lt", "less-than", "le", "lte", "in", "ni", "not-in",
        "contains", "glob", "intersect", "difference"}
SameT(r, v) == r.t = v.t
RelOp(op, r, v) ==
  CASE op \in {"eq", "equal"} -> SameT(r, v) /\ Eq(r, v)
    [] op \in {"ne", "not-equal"} -> ~(SameT(r, v) /\ Eq(r, v))
    [] op \in {"gt", "greater-than"} -> Lt(v, r)
    [] op \in {"ge", "gte"} -> ~Lt(r, v)
    [] op \in {"lt", "less-than"} -> Lt(r, v)
    [] op \in {"le", "lte"} -> ~Lt(v, r)
    [] op = "in" -> Member(v, r)
    [] op \in {"ni", "not-in"} -> ~Member(v, r)
    [] op = "contains" -> Member(r, v)
    [] op = "glob" -> Glob(r.v, v.v)
    [] op = "intersect" -> Intersect(r, v).v
    [] op = "difference" -> Difference(r, v).v
\* present / absent: about the attribute itself.  res = "missing" (the resource has no such attribute), "null", or "value" (a
\* non-empty value).  (Empty strings / lists / zero are not generated: Custodian and the helper library differ on them and the
\* statement does not say.)
Presence(value, res) == IF value = "present" THEN res = "value" ELSE res \in {"missing", "null"}
Ordering == {"gt", "greater-than", "ge", "gte", "lt", "less-than", "le", "lte"}
\* value_type transforms (the resource side unless stated): size, integer, normalize, unique_size; swap exchanges the operands;
\* age: (now - r) compared with v days;  expiration: (r - now) compared with v days   (r a timestamp, v a day count)
DaysUs(n) == Mul(FromInt(n), Mul(FromInt(86400), Mega))
Decision(op, vt, r, v, now) ==
  CASE vt = "none" -> RelOp(op, r, v)
    [] vt = "size" -> RelOp(op, IntV(FromInt(Len(r.v))), v)
    [] vt = "integer" -> RelOp(op, IntV(Mk(FALSE, FromDigits([j \in 1..Len(r.v) |-> r.v[j] - 48], 10))), v)
    [] vt = "normalize" -> RelOp(op, Normalize(r), v)
    [] vt = "unique_size" -> RelOp(op, UniqueSize(r), v)
    [] vt = "swap" -> RelOp(op, v, r)
    [] vt = "age" -> RelOp(op, Dur(Sub(now, BigOf(r))), Dur(DaysUs(ToInt(BigOf(v)))))
    [] vt = "expiration" -> RelOp(op, Dur(Sub(BigOf(r), now)), Dur(DaysUs(ToInt(BigOf(v)))))
\* duration text in the translator's dialect: like ParseDur plus the unit d
RECURSIVE XDurParts(_,_)
XDurParts(t, acc) ==
  IF t = <<>> THEN acc
  ELSE LET nd == CHOOSE k \in 0..Len(t) : (\A j \in 1..k : IsDigit(t[j])) /\ (k = Len(t) \/ ~IsDigit(t[k + 1])) IN
       IF nd = 0 \/ nd = Len(t) THEN BadDur
       ELSE LET u == t[nd + 1]
                scale == CASE u = 100 -> 86400 [] u = 104 -> 3600 [] u = 109 -> 60 [] u = 115 -> 1 [] OTHER -> 0
                n == Mk(FALSE, FromDigits([j \in 1..nd |-> t[j] - 48], 10))
            IN IF scale = 0 THEN BadDur ELSE XDurParts(SubSeq(t, nd + 2, Len(t)), Add(acc, Mul(n, FromInt(scale))))
XlateDurSeconds(t) == IF t = <<>> THEN BadDur ELSE XDurParts(t, Z)
=============================================================================
