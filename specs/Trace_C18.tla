---------------------------- MODULE Trace_C18 ----------------------------
(* Code -> spec: what the real translator emitted for a filter tree (token sequence), together with the token sequences of the
   individual clause translations, is accepted iff it parses and preserves the tree's truth table (C7nXlate!Preserves). *)
EXTENDS C7nXlate, TLC, Json, IOUtils
Trace == ndJsonDeserialize(IOEnv.TRACE_FILE)
VARIABLE i
Init == i = 1 /\ TLCSet(1, <<>>)
Next == /\ i <= Len(Trace) /\ i' = i + 1
        /\ LET v == Verdict(Trace[i].tree, Trace[i].clauses, Trace[i].emitted) IN v = "ok" \/ TLCSet(1, Append(TLCGet(1), <<i, v>>))
Post == /\ PrintT(<<"REJECTED", TLCGet(1)>>)
        /\ PrintT(<<"CONSUMED", TLCGet("stats").diameter - 1, Len(Trace), 0>>)
=============================================================================
