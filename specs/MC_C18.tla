---------------------------- MODULE MC_C18 ----------------------------
(* C18 model: filter trees over three primitive clauses (every nesting of list / and / or / not with 1-3 children to depth 2,
   singleton connectives included; depth 3 by wrapping) x assignments of top-level operator classes to the clauses
   (atom, !x, x && y, x || y, c ? x : y).  The reference translation Ref satisfies the contract (model invariant), so the
   contract is satisfiable; the harness feeds the REAL translator's output for every tree through Trace_C18. *)
EXTENDS C7nXlate, TLC
CONSTANT DEPTH
VARIABLES tree, cls
vars == <<tree, cls>>
Pr(i) == [k |-> "prim", i |-> i]
T0 == { Pr(1), Pr(2), Pr(3) }
Conn == {"list", "and", "or", "not"}
Node(k, kids) == [k |-> k, kids |-> kids]
T1 == { Node(k, <<a>>) : k \in Conn, a \in T0 } \cup { Node(k, <<a, b>>) : k \in Conn, a \in T0, b \in T0 }
T1wide == { Node(k, <<a, b, c>>) : k \in Conn, a \in T0, b \in T0, c \in T0 }
T01 == T0 \cup T1
T2 == { Node(k, <<a>>) : k \in Conn, a \in T1 } \cup { Node(k, <<a, b>>) : k \in Conn, a \in T01, b \in T01 }
Classes == {"atom", "neg", "and2", "or2", "cond", "ncond", "pand", "npand", "condbs"}
ClassChoices == { <<"atom", "atom", "atom">>, <<"and2", "or2", "cond">>, <<"or2", "cond", "and2">>, <<"cond", "neg", "or2">>, <<"neg", "and2", "atom">>, <<"ncond", "atom", "or2">>, <<"and2", "ncond", "ncond">>, <<"pand", "atom", "pand">>, <<"or2", "pand", "neg">>, <<"npand", "atom", "cond">>, <<"condbs", "npand", "atom">>, <<"atom", "condbs", "or2">> }
\* (depth 3 multiplies the trees by 27: it is explored for two of the class assignments)
DeepChoices == { <<"and2", "or2", "cond">>, <<"npand", "atom", "cond">> }
\* abstract clause texts of each class (identifiers a_i, b_i, c_i)
Nm(x, i) == Id(IF i = 1 THEN x \o "1" ELSE IF i = 2 THEN x \o "2" ELSE x \o "3")
ClauseToks(c, i) == CASE c = "atom" -> <<Nm("a", i)>>
                      [] c = "neg" -> <<P("!"), Nm("a", i)>>
                      [] c = "and2" -> <<Nm("a", i), P("&&"), Nm("b", i)>>
                      [] c = "or2" -> <<Nm("a", i), P("||"), Nm("b", i)>>
                      [] c = "ncond" -> <<P("!"), Nm("c", i), P("?"), Nm("a", i), P(":"), Nm("b", i)>>      \* begins with "!" yet its top level is ?:
                      [] c = "npand" -> <<P("!"), P("("), Nm("a", i), P(")"), P("&&"), P("("), Nm("b", i), P(")")>>   \* "! (" ... ")" yet a conjunction
                      [] c = "condbs" -> <<Nm("c", i), P("?"), Nm("a", i), P(":"), Nm("b", i)>>     \* a conditional whose text holds a string ending in a backslash
                      [] c = "pand" -> <<P("("), Nm("a", i), P(")"), P("&&"), P("("), Nm("b", i), P(")")>>      \* begins with "(" and ends with ")" yet is not one group
                      [] c = "cond" -> <<Nm("c", i), P("?"), Nm("a", i), P(":"), Nm("b", i)>>
Clauses(cs) == [i \in 1..3 |-> ClauseToks(cs[i], i)]
Init == tree \in T0 /\ cls \in ClassChoices
Wrap3(t) == { Node(k, <<t>>) : k \in Conn } \cup { Node(k, <<t, p>>) : k \in Conn, p \in T0 } \cup { Node(k, <<p, t>>) : k \in Conn, p \in T0 }
Next == \/ (tree \in T0 /\ tree' \in T1 \cup T1wide \cup T2 /\ UNCHANGED cls)
        \/ (DEPTH >= 3 /\ tree \in T2 /\ cls \in DeepChoices /\ tree' \in Wrap3(tree) /\ UNCHANGED cls)
Spec == Init /\ [][Next]_vars
RefPreserves == Preserves(tree, Clauses(cls), Ref(tree, Clauses(cls)))
\* and a wrong translation is noticed: joining without parentheses is NOT accepted for a tree where it matters
NaiveJoinRejected == (tree = Node("list", <<Pr(1), Node("or", <<Pr(2), Pr(3)>>)>>) /\ cls = <<"atom", "atom", "atom">>) =>
     ~Preserves(tree, Clauses(cls), <<Nm("a", 1), P("&&"), Nm("a", 2), P("||"), Nm("a", 3)>>)
=============================================================================
