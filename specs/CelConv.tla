---------------------------- MODULE CelConv ----------------------------
(* CEL type conversion functions (C10), from the language definition:
     int(x)       x: int | uint (<= int64 max) | double (truncate toward zero, in range) | string (decimal) | timestamp (epoch seconds)
     uint(x)      x: uint | int (>= 0) | double (truncate, in range) | string (decimal)
     double(x)    x: double | int | uint | string
     string(x)    x: string | int | uint | double | bytes (valid UTF-8) | bool | timestamp (RFC 3339) | duration ("<seconds>s")
     bytes(x)     x: bytes | string (UTF-8)
     bool(x)      x: bool | string ("true" / "false")
     timestamp(s) RFC 3339 text within years 0001..9999;  duration(s) duration text within +-315,576,000,000 s
   A result that does not fit the target type is an error, never a wrapped or clamped value.  Where a result would need
   floating-point rounding (double of a large integer, string of a double) the specification says Indef.            *)
EXTENDS CelTime

IntOfDigits(neg, ds) == Mk(neg, FromDigits([j \in 1..Len(ds) |-> ds[j] - 48], 10))
ParseDec(s) == \* optional sign, digits -> BigInt or "bad"
  LET neg == s # <<>> /\ s[1] = 45
      body == IF neg THEN Tail(s) ELSE s
  IN IF body = <<>> \/ ~AllDigits(body) THEN BadTs ELSE IntOfDigits(neg, body)
DecText(x) == (IF x.neg THEN <<45>> ELSE <<>>) \o [j \in 1..Len(ToDigits(x.m, 10)) |-> 48 + ToDigits(x.m, 10)[j]]
\* truncation of an exact dyadic toward zero
DTrunc(d) == IF d.c = "zero" THEN Z ELSE IF d.e >= 0 THEN Mk(d.neg, MShl(d.m, d.e)) ELSE Mk(d.neg, MShr(d.m, -d.e))
DoubleOfBig(x) == IF IsZero(x) THEN Zero(FALSE) ELSE Round(Fin(x.neg, x.m, 0))
\* UTF-8 decoding of an octet sequence -> code points or "bad"
BadUtf == <<-1>>
RECURSIVE Utf8Dec(_,_)
Cont(b) == b >= 128 /\ b <= 191
Utf8Dec(s, acc) ==
  IF s = <<>> THEN acc
  ELSE LET b == s[1] IN
    IF b < 128 THEN Utf8Dec(Tail(s), Append(acc, b))
    ELSE IF b >= 194 /\ b <= 223 /\ Len(s) >= 2 /\ Cont(s[2]) THEN Utf8Dec(SubSeq(s, 3, Len(s)), Append(acc, (b - 192) * 64 + (s[2] - 128)))
    ELSE IF b >= 224 /\ b <= 239 /\ Len(s) >= 3 /\ Cont(s[2]) /\ Cont(s[3])
         THEN LET c == (b - 224) * 4096 + (s[2] - 128) * 64 + (s[3] - 128) IN
              IF c >= 2048 /\ ~(c >= 55296 /\ c <= 57343) THEN Utf8Dec(SubSeq(s, 4, Len(s)), Append(acc, c)) ELSE BadUtf
    ELSE IF b >= 240 /\ b <= 244 /\ Len(s) >= 4 /\ Cont(s[2]) /\ Cont(s[3]) /\ Cont(s[4])
         THEN LET c == (b - 240) * 262144 + (s[2] - 128) * 4096 + (s[3] - 128) * 64 + (s[4] - 128) IN
              IF c >= 65536 /\ c <= 1114111 THEN Utf8Dec(SubSeq(s, 5, Len(s)), Append(acc, c)) ELSE BadUtf
    ELSE BadUtf
RECURSIVE Utf8Enc(_)
Utf8Enc(s) == IF s = <<>> THEN <<>> ELSE Utf8(s[1]) \o Utf8Enc(Tail(s))

\* texts some number parsers accept and others reject (a leading "+", surrounding blanks): the statement does not say
Lenient(s) == s # <<>> /\ (s[1] \in {43, 32, 9} \/ s[Len(s)] \in {32, 9, 10})
Conv(f, v) ==
  IF IsErr(v) THEN Err ELSE IF IsIndef(v) THEN Indef ELSE
  CASE f = "int" ->
         (CASE v.t = "int" -> v
            [] v.t = "uint" -> IntRes(64, BigOf(v))
            [] v.t = "double" -> (IF v.c \in {"nan", "inf"} THEN Err ELSE IntRes(64, DTrunc(v)))
            [] v.t = "string" -> (LET x == ParseDec(v.v) IN IF x = BadTs THEN (IF Lenient(v.v) THEN Indef ELSE Err) ELSE IntRes(64, x))
            [] v.t = "timestamp" -> (IF TRem(BigOf(v), Mega) = Z THEN IntV(EpochSeconds(BigOf(v))) ELSE Indef)   \* whole seconds only: the statement does not say how a fraction is dropped
            [] OTHER -> Indef)
    [] f = "uint" ->
         (CASE v.t = "uint" -> v
            [] v.t = "int" -> UintRes(64, BigOf(v))
            [] v.t = "double" -> (IF v.c \in {"nan", "inf"} THEN Err ELSE IF v.c = "fin" /\ v.neg /\ ~IsZero(DTrunc(v)) THEN Err ELSE UintRes(64, Abs(DTrunc(v))))
            [] v.t = "string" -> (LET x == ParseDec(v.v) IN IF x = BadTs THEN (IF Lenient(v.v) THEN Indef ELSE Err)
                                                              ELSE IF v.v[1] = 45 THEN (IF IsZero(x) THEN Indef ELSE Err) ELSE UintRes(64, x))
            [] OTHER -> Indef)
    [] f = "double" ->
         (CASE v.t = "double" -> v
            [] v.t \in {"int", "uint"} -> DoubleOfBig(BigOf(v))
            [] OTHER -> Indef)
    [] f = "string" ->
         (CASE v.t = "string" -> v
            [] v.t \in {"int", "uint"} -> Str(DecText(BigOf(v)))
            [] v.t = "bytes" -> (LET c == Utf8Dec(v.v, <<>>) IN IF c = BadUtf THEN Err ELSE Str(c))
            [] v.t = "bool" -> Indef               \* the statement lists no bool conversions
            [] v.t = "timestamp" -> Str(Rfc3339(BigOf(v)))     \* (a fraction of a second is part of the value and of its text)
            [] v.t = "duration" -> Str(DurText(BigOf(v)))
            [] OTHER -> Indef)
    [] f = "bytes" -> (CASE v.t = "bytes" -> v [] v.t = "string" -> Bytes(Utf8Enc(v.v)) [] OTHER -> Indef)
    [] f = "bool" -> (CASE v.t = "bool" -> v
                        [] v.t = "string" -> Indef
                        [] OTHER -> Indef)
    [] f = "timestamp" -> (CASE v.t = "timestamp" -> v
                             [] v.t = "string" -> (LET x == ParseTs(v.v) IN IF x = BadTs THEN Err ELSE IF InTs(x) THEN Ts(x) ELSE Err)
                             [] OTHER -> Indef)
    [] f = "duration" -> (CASE v.t = "duration" -> v
                            [] v.t = "string" -> (LET x == ParseDur(v.v) IN IF x = BadDur THEN Err ELSE IF x = InexactDur THEN Indef ELSE IF InDur(x) THEN Dur(x) ELSE Err)
                            [] OTHER -> Indef)
    [] OTHER -> Indef
ConvNames == {"int", "uint", "double", "string", "bytes", "bool", "timestamp", "duration"}
=============================================================================
