---------------------------- MODULE MC_C12 ----------------------------
(* C12 model.
   MODE "names": every configuration of bindings over the path a.b.c (each of the names a, a.b, a.b.c unbound, bound to a
   scalar, or bound to a nested map reaching further down the path -- every binding tagged with a distinct integer), the
   same path also bound under the package prefixes p and p.q, x package in {none, p, p.q} x references a, a.b, a.b.c, a.b.c.d.
   MODE "macros": nestings of comprehension macros with colliding and distinct variable names and an outer variable. *)
EXTENDS CelNames, TLC
CONSTANT MODE
VARIABLES bs, pkg, ref, prog, exp
vars == <<bs, pkg, ref, prog, exp>>
nA == <<97>>  nB == <<98>>  nC == <<99>>  nD == <<100>>  nP == <<112>>  nQ == <<113>>  nR == <<114>>
I(n) == IntV(FromInt(n))
M1(k, v) == Map(<< <<Str(k), v>> >>)
\* kinds of binding for each name of the path, with tag t (tags make the chosen binding identifiable)
KindsA(t) == { <<>>, << <<<<nA>>, I(t)>> >>, << <<<<nA>>, M1(nB, I(t + 1))>> >>, << <<<<nA>>, M1(nB, M1(nC, I(t + 2)))>> >> }
KindsAB(t) == { <<>>, << <<<<nA, nB>>, I(t)>> >>, << <<<<nA, nB>>, M1(nC, I(t + 1))>> >> }
KindsABC(t) == { <<>>, << <<<<nA, nB, nC>>, I(t)>> >> }
Root == { x \o y \o z : x \in KindsA(10), y \in KindsAB(20), z \in KindsABC(30) }
Under(lvl, t) == { <<>>, << <<lvl \o <<nA>>, I(t)>> >>, << <<lvl \o <<nA>>, M1(nB, M1(nC, I(t + 1)))>> >>, << <<lvl \o <<nA, nB>>, I(t + 2)>> >>, << <<lvl \o <<nA, nB, nC>>, I(t + 3)>> >> }
Refs == { <<nA>>, <<nA, nB>>, <<nA, nB, nC>>, <<nA, nB, nC, nD>> }
Pkgs == { <<>>, <<nP>>, <<nP, nQ>>, <<nP, nQ, nR>> }
Under3 == { <<>>, << <<<<nP, nQ, nR, nA>>, I(60)>> >> }
\* the statement is silent about a reference that stops at a bare namespace prefix (no bound name covers it completely and
\* nothing is selected): such references are not generated.
\* ... i.e. some bound name strictly extends the (prefixed) reference at one of the levels
Levels(pk) == { SubSeq(pk, 1, j) : j \in 0..Len(pk) }
Dangling(b, pk, r) == \E lv \in Levels(pk), j \in 1..Len(b) : Len(b[j][1]) > Len(lv \o r) /\ SubSeq(b[j][1], 1, Len(lv \o r)) = lv \o r
NamespaceAt(b, lv, r) == \E j \in 1..Len(b) : Len(b[j][1]) > Len(lv \o r) /\ SubSeq(b[j][1], 1, Len(lv \o r)) = lv \o r
Wins(b, lv, r) == ResolveAt(b, lv, r) # NoMatch
\* "the first level that binds a": a level at which the reference is only a namespace prefix of longer bound names neither clearly
\* binds it nor clearly does not -- if such a level comes before the winning one the statement does not fix the outcome.
Expected(b, pk, r) ==
  IF ~(\E lv \in Levels(pk) : Wins(b, lv, r)) THEN (IF Dangling(b, pk, r) THEN Indef ELSE Err)
  ELSE LET w == CHOOSE lv \in Levels(pk) : Wins(b, lv, r) /\ \A l2 \in Levels(pk) : Len(l2) > Len(lv) => ~Wins(b, l2, r)
       IN IF \E l2 \in Levels(pk) : Len(l2) > Len(w) /\ NamespaceAt(b, l2, r) THEN Indef ELSE Resolve(b, pk, r)
X == Var("x")  Y == Var("y")
L(s) == Lit(List([j \in 1..Len(s) |-> I(s[j])]))
Inner(v, body) == { Macro(m, L(<<10, 20>>), v, body) : m \in {"map", "filter", "exists", "all"} }
MacroProgs ==
       { Bin("+", Macro("map", L(<<1, 2>>), "x", b), ListE(<<X>>)) : b \in {X, Bin("+", X, Lit(I(1)))} }
  \cup { Macro("map", L(<<1, 2>>), "x", i) : i \in Inner("x", Bin(">", X, Lit(I(10)))) \cup Inner("y", Bin(">", Y, X)) \cup Inner("y", Bin("==", Bin("+", X, Y), Lit(I(21)))) }
  \cup { Macro("map", L(<<1, 2>>), "x", CondE(Macro("exists", L(<<10>>), v, Bin("==", Var(v), Lit(I(10)))), X, Lit(I(0)))) : v \in {"x", "y"} }
  \cup { Macro("map", L(<<1, 2>>), "x", Bin("+", Macro("map", L(<<10>>), "x", Macro("map", L(<<100>>), v, Bin("+", X, Var(v)))), ListE(<<ListE(<<X>>)>>))) : v \in {"x", "y"} }
  \cup { Bin("+", Macro("filter", L(<<1, 2, 3>>), "x", Macro("exists", L(<<2, 3>>), v, Bin("==", Var(v), X))), ListE(<<X, Y>>)) : v \in {"x", "y"} }
  \cup { Macro("exists", L(<<1, 2>>), "y", Macro("all", L(<<1, 2>>), "x", Bin("<=", Y, Bin("+", X, Y)))) }
\* MODE "idents": an identifier is a name and nothing else -- whatever its spelling means to the host language
IdentProgs(n) == << Var(n), Bin("+", Var(n), Lit(I(1))), Macro("map", L(<<1, 2>>), n, Bin("+", Var(n), Lit(I(1)))), Macro("map", L(<<1, 2>>), "x", Var(n)),
                    Macro("exists", L(<<1>>), n, Bin("==", Var(n), Lit(I(1)))), Bin("+", Macro("map", L(<<1>>), n, Var(n)), ListE(<<Var(n)>>)),
                    Macro("map", L(<<1>>), n, Macro("map", L(<<10>>), "x", Bin("+", X, Var(n)))) >>
IdentEnv(n, bound) == CASE bound = "int" -> << <<n, I(7)>> >> [] bound = "null" -> << <<n, Null>> >> [] OTHER -> <<>>
BoundKind(b) == IF b = <<>> THEN "no" ELSE IF b[1][2] = Null THEN "null" ELSE "int"
OuterEnv == << <<"x", I(100)>>, <<"y", I(200)>> >>
OuterEnv0 == << <<"x", I(0)>>, <<"y", I(0)>> >>          \* outer variables bound to a zero are bound all the same
Init == bs = <<>> /\ pkg = <<>> /\ ref = <<>> /\ prog = Lit(Null) /\ exp = Null
Next == \/ (MODE = "names" /\ ref = <<>> /\ \E r \in Root, u1 \in Under(<<nP>>, 40), u2 \in Under(<<nP, nQ>>, 50), u3 \in Under3, pk \in Pkgs, rf \in Refs :
               /\ (u3 # <<>> => pk = <<nP, nQ, nR>>)
               /\ bs' = r \o u1 \o u2 \o u3 /\ pkg' = pk /\ ref' = rf /\ UNCHANGED prog
               /\ exp' = Expected(bs', pk, rf))
        \/ (MODE = "macros" /\ prog = Lit(Null) /\ \E p \in MacroProgs, env \in {OuterEnv, OuterEnv0} : prog' = p /\ bs' = env /\ exp' = Eval(p, env) /\ UNCHANGED <<pkg, ref>>)
        \/ (MODE = "idents" /\ prog = Lit(Null) /\ \E n \in HostileIdents \cup {"zz"}, bound \in {"no", "int", "null"}, j \in 1..Len(IdentProgs("zz")) :
               /\ prog' = IdentProgs(n)[j] /\ bs' = IdentEnv(n, bound) /\ pkg' = j /\ UNCHANGED ref
               /\ exp' = Eval(prog', bs'))
Spec == Init /\ [][Next]_vars
\* longest prefix: if the whole reference is bound at the winning level, that binding is the result, whatever shorter prefixes hold
WholeNameWins == (ref # <<>> /\ IsBound(bs, pkg \o ref)) => exp = ValueOf(bs, pkg \o ref)
\* package order: a binding under the package hides the root binding of the same name
PackageFirst == (ref # <<>> /\ pkg # <<>> /\ IsBound(bs, pkg \o <<nA>>) /\ ref = <<nA>>) => exp = ValueOf(bs, pkg \o <<nA>>)
RootFallback == (ref # <<>> /\ exp # Indef /\ ~(\E k \in 1..Len(ref) : \E j \in 1..Len(pkg) : IsBound(bs, SubSeq(pkg, 1, j) \o SubSeq(ref, 1, k)))) => exp = Resolve(bs, <<>>, ref)
\* macro variables never leak: the outer x (100) / y (200) are what the expression sees after the macro
NoLeak == (MODE = "macros" /\ prog.k = "bin" /\ prog.op = "+" /\ prog.r.k = "list" /\ exp.t = "list") => exp.v[Len(exp.v)] \in {bs[1][2], bs[2][2]}
\* the spelling of an identifier is irrelevant: the outcome is the one the same program has with the identifier spelled "x"
SpellingIrrelevant == (MODE = "idents" /\ prog # Lit(Null)) => exp = Eval(IdentProgs("zz")[pkg], IdentEnv("zz", BoundKind(bs)))
=============================================================================
