---------------------------- MODULE MC_C09 ----------------------------
(* C09 model: well-typed programs over lists, maps, strings and the comprehension macros, built from value pools by
   templates (families); exp = Eval(prog).  The laws of the statement are model invariants. *)
EXTENDS CelEval, TLC
CONSTANT FAMILIES
VARIABLES fam, prog, exp
vars == <<fam, prog, exp>>
I(n) == IntV(FromInt(n))
U(n) == UintV(FromInt(n))
S(s) == Str(s)
LI(s) == List([j \in 1..Len(s) |-> I(s[j])])
IntLists == { LI(<<>>), LI(<<1>>), LI(<<1, 2>>), LI(<<2, 1, 2>>), LI(<<0, 1, 2, 3>>), LI(<<3, 3>>), LI(<<-1, 0>>),
              LI(<<1, 1, 0>>), LI(<<2, 2, 0, 2>>) }       \* a failing element AFTER the loop could have decided: no early exit may hide it
OtherLists == { List(<<S(<<97>>), S(<<98>>)>>), List(<<U(1), U(2)>>), List(<<Bool(TRUE), Bool(FALSE)>>),
                List(<<LI(<<1>>), LI(<<2, 3>>)>>), List(<<S(<<>>)>>) }
Lists == IntLists \cup OtherLists
KA == S(<<97>>)  KB == S(<<98>>)
Maps == { Map(<<>>), Map(<< <<KA, I(1)>> >>), Map(<< <<KA, I(1)>>, <<KB, I(2)>> >>), Map(<< <<I(1), KA>>, <<I(2), KB>> >>),
          Map(<< <<U(1), I(1)>> >>), Map(<< <<Bool(TRUE), I(1)>> >>),
          \* present keys whose values are zero / false / empty: present all the same
          Map(<< <<KA, I(0)>>, <<KB, Bool(FALSE)>> >>), Map(<< <<KA, S(<<>>)>>, <<KB, LI(<<>>)>> >>), Map(<< <<KA, Null>> >>), Map(<< <<KA, LI(<<1, 2>>)>> >>), Map(<< <<KA, Map(<< <<KB, I(7)>> >>)>> >>) }
Keys == { KA, KB, S(<<122, 122>>), I(1), I(2), I(3), U(1), U(2), Bool(TRUE), Bool(FALSE) }
BadKeys == { Null, LI(<<1>>), Bytes(<<97>>), [t |-> "double", c |-> "fin", neg |-> FALSE, m |-> <<1>>, e |-> 0] }
Strings == { S(<<>>), S(<<97>>), S(<<97, 98>>), S(<<98, 97>>), S(<<97, 98, 97>>), S(<<233>>), S(<<97, 128049>>), S(<<128049>>), S(<<128049, 98>>) }
BytesPool == { Bytes(<<>>), Bytes(<<97>>), Bytes(<<195, 169>>), Bytes(<<0, 255>>) }
Elems == { I(0), I(1), I(2), I(3), I(5) }
MinI == IntV(IntMin(64))
MaxI == IntV(IntMax(64))
IdxPool(l) == { MinI, MaxI, I(-Len(l.v) - 1), I(-Len(l.v)), I(-1), I(0), I(1), I(Len(l.v) - 1), I(Len(l.v)), I(Len(l.v) + 1) }
X == Var("x")  Y == Var("y")
Preds == { Bin(">", X, Lit(I(1))), Bin("==", X, Lit(I(2))), Bin("==", Bin("%", X, Lit(I(2))), Lit(I(0))),
           Bin("in", X, Lit(LI(<<1, 3>>))), Bin("==", Bin("/", Lit(I(1)), X), Lit(I(1))),
           Bin("||", Bin(">", X, Lit(I(1))), Bin("==", Bin("/", Lit(I(1)), X), Lit(I(1)))),
           Bin("&&", Bin("<", X, Lit(I(3))), Bin("!=", X, Lit(I(1)))), Lit(Bool(TRUE)), Lit(Bool(FALSE)),
           Un("!", Bin("<=", X, Lit(I(0)))) }
MapBodies == { Bin("*", X, Lit(I(2))), Bin("+", X, Lit(I(1))), ListE(<<X>>), Bin(">", X, Lit(I(1))), Bin("/", Lit(I(6)), X),
               CondE(Bin(">", X, Lit(I(1))), Lit(S(<<97>>)), Lit(S(<<98>>))), X, Bin("*", X, Lit(MaxI)) }
Programs(f) ==
  CASE f = "idx" -> { Idx(Lit(l), Lit(i)) : l \in Lists, i \in UNION { IdxPool(l2) : l2 \in Lists } }
    [] f = "mapget" -> { Idx(Lit(m), Lit(k)) : m \in Maps, k \in Keys \cup BadKeys }
                       \cup { Sel(Lit(m), g) : m \in Maps, g \in {<<97>>, <<98>>, <<122, 122>>} } \cup { Has(Lit(m), g) : m \in Maps, g \in {<<97>>, <<98>>, <<122, 122>>} }
                       \cup { Sel(Sel(Lit(m), <<97>>), <<98>>) : m \in Maps } \cup { Has(Sel(Lit(m), <<97>>), <<98>>) : m \in Maps }
    [] f = "in" -> { Bin("in", Lit(x), Lit(l)) : x \in Elems, l \in IntLists } \cup { Bin("in", Lit(k), Lit(m)) : k \in Keys, m \in Maps }
                   \cup { Bin("in", Lit(s), Lit(List(<<KA, KB>>))) : s \in Strings }
    [] f = "size" -> { Call("size", <<Lit(c)>>) : c \in Lists \cup Maps \cup Strings \cup BytesPool }
                     \cup { MCall(Lit(c), "size", <<>>) : c \in Lists \cup Maps \cup Strings \cup BytesPool }
    [] f = "concat" -> { Bin("+", Lit(a), Lit(b)) : a \in IntLists, b \in IntLists } \cup { Bin("+", Lit(a), Lit(b)) : a \in Strings, b \in Strings }
                       \cup { Bin("+", Lit(a), Lit(b)) : a \in BytesPool, b \in BytesPool }
                       \cup { MCall(Bin("+", Lit(a), Lit(b)), "startsWith", <<Lit(a)>>) : a \in Strings, b \in Strings }
                       \cup { Idx(Bin("+", Lit(a), Lit(b)), Lit(I(n))) : a \in IntLists, b \in IntLists, n \in {0, 2, 4} }
    [] f = "mapctor" -> { MapE(<< <<Lit(k1), Lit(I(1))>>, <<Lit(k2), Lit(I(2))>> >>) : k1 \in Keys \cup BadKeys, k2 \in Keys }
                        \cup { Idx(MapE(<< <<Lit(k1), Lit(I(1))>>, <<Lit(k2), Lit(I(2))>> >>), Lit(k2)) : k1 \in Keys, k2 \in Keys }
                        \cup { ListE(<<Lit(a), Lit(b)>>) : a \in Elems, b \in Elems }
                        \* a repeated key is an error also when both entries hold the very same value (a variable's)
                        \cup { Macro("map", Lit(LI(<<7, 8>>)), "x", MapE(<< <<Lit(k1), X>>, <<Lit(k2), X>> >>)) : k1 \in {KA, KB}, k2 \in {KA, KB} }
                        \cup { Macro("map", Lit(LI(<<7>>)), "x", MapE(<< <<X, X>>, <<X, X>> >>)) }
    [] f = "strfn" -> { MCall(Lit(s), g, <<Lit(t)>>) : s \in Strings, t \in Strings, g \in {"contains", "startsWith", "endsWith"} }
    [] f = "macro" -> { Macro(m, Lit(l), "x", p) : m \in {"all", "exists", "exists_one", "filter"}, l \in IntLists, p \in Preds }
                      \cup { Macro("map", Lit(l), "x", b) : l \in IntLists, b \in MapBodies }
                      \cup { Macro(m, Lit(mm), "x", Bin("==", X, Lit(KA))) : m \in {"all", "exists", "exists_one", "filter", "map"}, mm \in {Map(<<>>), Map(<< <<KA, I(1)>> >>), Map(<< <<KA, I(1)>>, <<KB, I(2)>> >>)} }
    [] f = "nested" -> { MCall(Macro("map", Lit(l), "x", b), "size", <<>>) : l \in IntLists, b \in MapBodies }
                       \cup { Macro("map", Lit(l1), "x", Macro("filter", Lit(l2), "y", Bin(">", Y, X))) : l1 \in IntLists, l2 \in IntLists }
                       \cup { Macro("exists", Lit(l1), "x", Macro("all", Lit(l2), "y", Bin("<=", X, Y))) : l1 \in IntLists, l2 \in IntLists }
                       \cup { Macro("filter", Macro("map", Lit(l), "x", Bin("*", X, Lit(I(2)))), "x", p) : l \in IntLists, p \in Preds }
                       \cup { Bin("==", Bin("in", Lit(x), Lit(l)), Macro("exists", Lit(l), "y", Bin("==", Y, Lit(x)))) : x \in Elems, l \in IntLists }
                       \cup { Macro("map", Lit(l), "x", Macro("map", Lit(l), "x", Bin("+", X, Lit(I(1))))) : l \in IntLists }
Init == fam \in FAMILIES /\ prog = Lit(Null) /\ exp = Null
Next == prog = Lit(Null) /\ prog' \in Programs(fam) /\ fam' = fam /\ exp' = Eval(prog', <<>>)
Spec == Init /\ [][Next]_vars

Definite == ~IsIndef(exp) \/ fam \in {"mapget", "mapctor", "macro", "nested", "in"}
\* laws of the statement
MapKeepsSize == (prog.k = "macro" /\ prog.m = "map" /\ prog.x.k = "lit" /\ prog.x.v.t = "list" /\ exp.t = "list") => Len(exp.v) = Len(prog.x.v.v)
MapElementwise == (prog.k = "macro" /\ prog.m = "map" /\ prog.x.k = "lit" /\ prog.x.v.t = "list" /\ exp.t = "list") =>
     \A j \in 1..Len(exp.v) : exp.v[j] = Eval(prog.body, <<<<prog.v, prog.x.v.v[j]>>>>)
Truth(j) == Eval(prog.body, <<<<prog.v, prog.x.v.v[j]>>>>)
FilterIsSubsequence == (prog.k = "macro" /\ prog.m = "filter" /\ prog.x.k = "lit" /\ prog.x.v.t = "list" /\ exp.t = "list") =>
     /\ Len(exp.v) = Cardinality({ j \in 1..Len(prog.x.v.v) : IsTrue(Truth(j)) })
     /\ \A j \in 1..Len(exp.v) : \E i \in j..Len(prog.x.v.v) : prog.x.v.v[i] = exp.v[j] /\ IsTrue(Truth(i))
ExistsOneCounts == (prog.k = "macro" /\ prog.m = "exists_one" /\ prog.x.k = "lit" /\ prog.x.v.t = "list" /\ exp.t = "bool") =>
     exp.v = (Cardinality({ j \in 1..Len(prog.x.v.v) : IsTrue(Truth(j)) }) = 1)
InIffExists == (fam = "nested" /\ prog.k = "bin" /\ prog.op = "==") => exp = Bool(TRUE)
ConcatPrefix == (prog.k = "mcall" /\ prog.f = "startsWith" /\ prog.x.k = "bin") => exp = Bool(TRUE)
BadIndexIsError == (prog.k = "idx" /\ prog.x.k = "lit" /\ prog.x.v.t = "list" /\ prog.i.k = "lit" /\ prog.i.v.t = "int") =>
     ((prog.i.v.neg \/ Cmp(BigOf(prog.i.v), FromInt(Len(prog.x.v.v))) >= 0) <=> exp = Err)
=============================================================================
