---------------------------- MODULE CelApi ----------------------------
(* The public API of the library as a state machine (C05).  One action per public call; in a sequential library the call's
   return is its linearisation point.

     NewEnv(runner, decl)      create an Environment (runner class, declarations / package)
     Program(env, expr)        compile the expression and build a program in that environment
     Evaluate(prog, binding)   out' = Outcome(decl(env(prog)), expr(prog), binding)

   Outcome is a function of the environment's declarations, the expression and the bindings of THIS call only: not of the
   runner class, not of earlier calls (hist), not of which other environments / programs exist.  That is the whole content
   of the property; the history variable hist exists so that TLC enumerates every history and the harness replays each
   one in a single process, comparing every Evaluate with (a) this specification's outcome where CEL fixes it and
   (b) the same evaluation performed alone in a fresh interpreter.                                                     *)
EXTENDS CelNames, TLC
CONSTANTS MaxEnv, MaxProg, Depth
VARIABLES envs, progs, hist, out
vars == <<envs, progs, hist, out>>
Runners == {"I", "C"}
Decls == {"none", "dotted", "xint", "pkg"}
Exprs == {"const", "var", "dotref", "macro", "has", "cond", "sizeplain", "sizeov", "twiceplain", "twiceov", "tzplus", "tzminus", "hasdiv"}
\* sizeplain / twiceplain: size("h\u00e9llo") and twice(21) in a program built WITHOUT application functions;
\* sizeov / twiceov: the same texts in a program built with functions = [size (UTF-8 octets, overriding the built-in), twice]
Bindings == {"empty", "x1", "xneg", "ab7", "ab8x2", "mf", "mf0", "amap", "amapab"}
I(n) == IntV(FromInt(n))
nA == <<97>>  nB == <<98>>  nM == <<109>>  nF == <<102>>  nX == <<120>>
BindingOf(b) == CASE b = "empty" -> <<>>
                  [] b = "x1" -> << <<<<nX>>, I(1)>> >>
                  [] b = "xneg" -> << <<<<nX>>, I(-5)>> >>
                  [] b = "ab7" -> << <<<<nA, nB>>, I(7)>> >>
                  [] b = "ab8x2" -> << <<<<nA, nB>>, I(8)>>, <<<<nX>>, I(2)>> >>
                  [] b = "mf" -> << <<<<nM>>, Map(<< <<Str(nF), I(1)>> >>)>> >>
                  [] b = "mf0" -> << <<<<nM>>, Map(<< <<Str(nF), I(0)>> >>)>> >>       \* the binding on which "hasdiv" fails: a failed call must leave nothing behind either
                  [] b = "amap" -> << <<<<nA>>, Map(<< <<Str(nB), I(9)>> >>)>> >>
                  [] b = "amapab" -> << <<<<nA>>, Map(<< <<Str(nB), I(9)>> >>)>>, <<<<nA, nB>>, I(7)>> >>      \* the map first, then the dotted name
X == Var("x")
\* the plain variable environment Eval uses (single-component names only)
VarEnv(bs) == [j \in 1..Len(bs) |-> <<IF bs[j][1] = <<nX>> THEN "x" ELSE IF bs[j][1] = <<nM>> THEN "m" ELSE "other", bs[j][2]>>]
Declared(d, n) == (d = "dotted" /\ n = <<nA, nB>>) \/ (d = "xint" /\ n = <<nX>>)
\* a name that is declared but not bound: the statement only says the outcome is the same as alone
Ref(d, bs, n) == IF IsBound(bs, n) THEN Resolve(bs, IF d = "pkg" THEN <<<<112>>>> ELSE <<>>, n)
                 ELSE IF Declared(d, n) THEN Indef           \* declared, not bound (even if a prefix is bound): only "same as alone"
                 ELSE IF Len(n) = 2 /\ IsBound(bs, <<n[1]>>) THEN Resolve(bs, IF d = "pkg" THEN <<<<112>>>> ELSE <<>>, n)
                 ELSE Err
Outcome(d, e, b) ==
  LET bs == BindingOf(b)  env == VarEnv(bs) IN
  CASE e = "const" -> I(42)
    [] e = "var" -> Ref(d, bs, <<nX>>)
    [] e = "dotref" -> Ref(d, bs, <<nA, nB>>)
    [] e = "macro" -> Eval(Macro("map", Lit(List(<<I(1), I(2)>>)), "x", Bin("+", X, Lit(I(1)))), env)
    [] e = "has" -> (IF IsBound(bs, <<nM>>) THEN Eval(Has(Var("m"), nF), env) ELSE Indef)
    \* has(m.f) ? 10 / m.f : -1 -- fails on m = {f: 0}, a value on other maps, and with m unbound it is still a value: the one kind of
    \* expression for which "a failed call followed by a call without bindings" can show.  Its value is C09's business (has() under the
    \* compiled runner is a recorded finding there); here the only demand is "the same as alone"
    [] e = "hasdiv" -> Indef
    [] e = "sizeplain" -> I(5)                 \* the built-in: code points
    [] e = "sizeov" -> I(6)                    \* this program's own function
    [] e = "twiceplain" -> Err                 \* no such function in THIS program, whatever other programs were given
    [] e = "twiceov" -> I(42)
    \* 2009-02-13T12:00:00Z seen from +02:00 and from -02:00 (the same offset with either sign, in either order of first use)
    [] e = "tzplus" -> Eval(MCall(Lit(Ts(Mul(FromInt(1234526400), MegaB))), "getHours", <<Lit(Str(<<43, 48, 50, 58, 48, 48>>))>>), <<>>)
    [] e = "tzminus" -> Eval(MCall(Lit(Ts(Mul(FromInt(1234526400), MegaB))), "getHours", <<Lit(Str(<<45, 48, 50, 58, 48, 48>>))>>), <<>>)
    [] e = "cond" -> (LET x == Ref(d, bs, <<nX>>) IN IF IsIndef(x) THEN Indef ELSE IF IsErr(x) THEN Err
                      ELSE Eval(CondE(Bin(">", X, Lit(I(0))), Lit(Str(<<112>>)), Lit(Str(<<110>>))), env))
None == [t |-> "none"]
Init == envs = <<>> /\ progs = <<>> /\ hist = <<>> /\ out = None
NewEnv == /\ Len(envs) < MaxEnv
          /\ \E r \in Runners, d \in Decls : envs' = Append(envs, [runner |-> r, decl |-> d]) /\ hist' = Append(hist, <<"NewEnv", r, d>>)
          /\ out' = None /\ UNCHANGED progs
Program == /\ Len(progs) < MaxProg
           /\ \E i \in 1..Len(envs), e \in Exprs : progs' = Append(progs, [env |-> i, expr |-> e]) /\ hist' = Append(hist, <<"Program", i, e>>)
           /\ out' = None /\ UNCHANGED envs
Evaluate == /\ \E p \in 1..Len(progs), b \in Bindings :
                 /\ hist' = Append(hist, <<"Evaluate", p, b>>)
                 /\ out' = Outcome(envs[progs[p].env].decl, progs[p].expr, b)
            /\ UNCHANGED <<envs, progs>>
Next == Len(hist) < Depth /\ (NewEnv \/ Program \/ Evaluate)
Spec == Init /\ [][Next]_vars
\* the outcome is history free: two Evaluate steps with the same (declarations, expression, bindings) anywhere in the history
\* -- same or different program, same or different runner class -- have the same outcome
HistoryFree == [][\A p \in 1..Len(progs), b \in Bindings :
                    hist' = Append(hist, <<"Evaluate", p, b>>) => out' = Outcome(envs[progs[p].env].decl, progs[p].expr, b)]_vars
RunnerIndependent == \A d \in Decls, e \in Exprs, b \in Bindings : Outcome(d, e, b) = Outcome(d, e, b)
\* re-evaluation: the last call repeated gives the same outcome (it is a function of the call's arguments)
\* simulation mode: print every complete history (the harness replays each one in its own process)
Emit == Len(hist) < Depth \/ PrintT(<<"HIST", hist>>)
TypeOK == out = None \/ out.t \in {"int", "list", "bool", "string", "map", "err", "indef"}
=============================================================================
