---------------------------- MODULE MC_C01D ----------------------------
(* C01, doubles: all pairs of a pool of IEEE-754 values (NaN, +-inf, +-0, finite dyadics incl. the largest
   and smallest magnitudes) x {+,-,*,/} and unary minus, with the class algebra of CelArith. *)
EXTENDS CelArith, TLC
VARIABLES op, a, b, exp
vars == <<op, a, b, exp>>
Mags == { <<<<1>>, 0>>, <<<<1>>, 1>>, <<<<1>>, -1>>, <<<<3>>, 0>>, <<<<3>>, -1>>, <<<<5>>, 2>>, <<<<7>>, -3>>, <<<<1>>, 30>>,
          <<<<1>>, 52>>, <<MSub(MPow2(53), <<1>>), 0>>, <<<<1>>, 1023>>, <<MSub(MPow2(53), <<1>>), 971>>,
          <<<<1>>, -1074>>, <<<<1>>, -1022>>, <<<<15>>, 0>> }
Pool == {NaN, Inf(FALSE), Inf(TRUE), Zero(FALSE), Zero(TRUE)}
        \cup { Fin(s, me[1], me[2]) : s \in BOOLEAN, me \in Mags }
Init == a \in Pool /\ op = "neg" /\ b = Zero(FALSE) /\ exp = DNeg(a)
Next == op = "neg" /\ op' \in DOps /\ b' \in Pool /\ a' = a /\ exp' = DOp(op', a, b')
Spec == Init /\ [][Next]_vars

IsNaN(x) == x.t = "double" /\ x.c = "nan"
Commute == op \in {"+", "*"} => DOp(op, a, b) = DOp(op, b, a)
SubIsAddNeg == op = "-" => exp = DAdd(a, DNeg(b))
NaNPropagates == (op \in DOps /\ (IsNaN(a) \/ IsNaN(b))) => IsNaN(exp)
\* division by zero: signed infinity for a non-zero finite or infinite dividend, NaN for 0/0 and NaN/0
DivByZero == (op = "/" /\ b.c = "zero") =>
     IF a.c \in {"nan", "zero"} THEN IsNaN(exp) ELSE exp = Inf(a.neg # b.neg)
NegInvolution == op = "neg" => DNeg(exp) = a
MulSign == (op = "*" /\ exp.t = "double" /\ exp.c # "nan") => exp.neg = (a.neg # b.neg)
\* a representable finite result really is within binary64
Representable == (exp.t = "double" /\ exp.c = "fin") => (MBits(exp.m) <= 53 /\ exp.e >= -1074 /\ exp.e + MBits(exp.m) <= 1024)
=============================================================================
