---------------------------- MODULE Trace_C15 ----------------------------
(* Code -> spec: random JSON documents converted by the library.
   Event: [doc, cel (the converted value, projected with its CEL type tags), back (the document obtained by serialising the
   CEL value with the library's encoder and parsing it again), paths (sequence of [p, v]: a path and the value CEL navigation reached)]. *)
EXTENDS CelJson, TLC, Json, IOUtils
Trace == ndJsonDeserialize(IOEnv.TRACE_FILE)
VARIABLE i
Why(e) == IF ToCel(e.doc) # e.cel THEN "ToCel"
          ELSE IF Encode(ToCel(e.doc)) # e.back THEN "Encode"
          ELSE IF \E k \in 1..Len(e.paths) : ToCel(JNavigate(e.doc, e.paths[k].p)) # e.paths[k].v THEN "Navigate"
          ELSE "ok"
Init == i = 1 /\ TLCSet(1, <<>>)
Next == /\ i <= Len(Trace) /\ i' = i + 1
        /\ LET w == Why(Trace[i]) IN w = "ok" \/ TLCSet(1, Append(TLCGet(1), <<i, w>>))
Post == /\ PrintT(<<"REJECTED", TLCGet(1)>>)
        /\ PrintT(<<"CONSUMED", TLCGet("stats").diameter - 1, Len(Trace), 0>>)
=============================================================================
