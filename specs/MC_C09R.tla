---------------------------- MODULE MC_C09R ----------------------------
(* C09, the matches() fragment: EVERY pattern over the alphabet  a b . * + ? | ( ) [ ] ^ $ \ -  up to LEN symbols (grown one symbol
   at a time), against a fixed list of texts.  res[j] = what  Texts[j].matches(pat)  must be:
       "t" / "f"  the boolean,   "bad"  an evaluation error (invalid pattern),   "unk"  syntax outside the modelled fragment. *)
EXTENDS CelRegex, TLC
CONSTANT LEN
VARIABLES pat, res
vars == <<pat, res>>
Alphabet == {97, 98, 46, 42, 43, 63, 124, 40, 41, 91, 93, 94, 36, 92, 45}
Texts == << <<>>, <<97>>, <<98>>, <<97, 98>>, <<98, 97>>, <<97, 97, 98>>, <<97, 98, 97, 98>>, <<97, 45, 98>>, <<42>>, <<97, 46, 40>> >>
Results(p) == LET n == RxParse(p) IN
              [j \in 1..Len(Texts) |-> IF RxFail(n) THEN n.k ELSE IF RxSearch(n, Texts[j]) THEN "t" ELSE "f"]
Init == pat = <<>> /\ res = Results(<<>>)
Next == Len(pat) < LEN /\ \E c \in Alphabet : pat' = Append(pat, c) /\ res' = Results(pat')
Spec == Init /\ [][Next]_vars
\* ---- laws the matcher must satisfy (checked on every pattern)
IsLiteral(p) == \A k \in 1..Len(p) : p[k] \in {97, 98, 45}
Contains(s, p) == \E j \in 0..(Len(s) - Len(p)) : SubSeq(s, j + 1, j + Len(p)) = p
Prefix(p, s) == Len(p) <= Len(s) /\ SubSeq(s, 1, Len(p)) = p
Suffix(p, s) == Len(p) <= Len(s) /\ SubSeq(s, Len(s) - Len(p) + 1, Len(s)) = p
B(x) == IF x THEN "t" ELSE "f"
\* a pattern without metacharacters matches exactly the texts that contain it
LiteralIsContains == IsLiteral(pat) => \A j \in 1..Len(Texts) : res[j] = B(Contains(Texts[j], pat))
\* ^lit: prefix;  lit$: suffix;  ^lit$: equality
Anchors == /\ (Len(pat) >= 1 /\ pat[1] = 94 /\ IsLiteral(Tail(pat))) => \A j \in 1..Len(Texts) : res[j] = B(Prefix(Tail(pat), Texts[j]))
           /\ (Len(pat) >= 1 /\ pat[Len(pat)] = 36 /\ IsLiteral(SubSeq(pat, 1, Len(pat) - 1))) =>
                 \A j \in 1..Len(Texts) : res[j] = B(Suffix(SubSeq(pat, 1, Len(pat) - 1), Texts[j]))
           /\ (Len(pat) >= 2 /\ pat[1] = 94 /\ pat[Len(pat)] = 36 /\ IsLiteral(SubSeq(pat, 2, Len(pat) - 1))) =>
                 \A j \in 1..Len(Texts) : res[j] = B(Texts[j] = SubSeq(pat, 2, Len(pat) - 1))
\* validity does not depend on the text; a valid pattern followed by x* matches whatever the pattern matched
Uniform == \A j, k \in 1..Len(Texts) : (res[j] \in {"bad", "unk"}) => res[k] = res[j]
\* alternation is union:  p|q  (both literal) matches iff p or q is contained
AltIsUnion == \A k \in 1..Len(pat) : (pat[k] = 124 /\ IsLiteral(SubSeq(pat, 1, k - 1)) /\ IsLiteral(SubSeq(pat, k + 1, Len(pat)))) =>
                 \A j \in 1..Len(Texts) : res[j] = B(Contains(Texts[j], SubSeq(pat, 1, k - 1)) \/ Contains(Texts[j], SubSeq(pat, k + 1, Len(pat))))
=============================================================================
