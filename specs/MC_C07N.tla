---------------------------- MODULE MC_C07N ----------------------------
(* C07 model, numbers: every spelling (sign, decimal / hex, leading zeros, u suffix, digit case) of each value of the
   int64 / uint64 boundary pool, and a family of floating-point spellings; expected = the spelled number, or an
   error when it does not fit the type. *)
EXTENDS CelLiteral, TLC, FiniteSets
VARIABLES kind, sp, text, exp
vars == <<kind, sp, text, exp>>
Pool == { Z.m, <<1>>, <<7>>, <<8>>, <<9>>, <<10>>, <<15>>, <<16>>, <<255>>, MPow2(31), MPow2(32), MSub(MPow2(63), <<1>>), MPow2(63), MAdd(MPow2(63), <<1>>),
          MSub(MPow2(64), <<1>>), MPow2(64), MAdd(MPow2(64), <<1>>), MFromNat(1234567890), FromDigits(<<1,0,0,0,0,0,0,0,0,0,0,0,0,0,0,0,0,0,0,0>>, 10) }
DigitChar(d, upper) == IF d < 10 THEN 48 + d ELSE IF upper THEN 55 + d ELSE 87 + d
DigitChars(ds, upper) == [j \in 1..Len(ds) |-> DigitChar(ds[j], upper)]
Zeros(n) == [j \in 1..n |-> 0]
IntSpellings == [neg : BOOLEAN, hex : BOOLEAN, zeros : 0..2, m : Pool, uns : BOOLEAN, upper : BOOLEAN]
IntDigits(s) == Zeros(s.zeros) \o ToDigits(s.m, IF s.hex THEN 16 ELSE 10)
IntText(s) == (IF s.neg THEN <<45>> ELSE <<>>) \o (IF s.hex THEN <<48, 120>> ELSE <<>>) \o DigitChars(IntDigits(s), s.upper)
              \o (IF s.uns THEN <<(IF s.upper THEN 85 ELSE 117)>> ELSE <<>>)
IntExp(s) == IntDenote(s.neg, s.hex, IntDigits(s), s.uns)
\* floats: ip / fp digit sequences ("none" = no decimal point), ex = decimal exponent ("none" = no exponent part)
NoPart == <<-1>>
FloatSpellings == { f \in [neg : BOOLEAN, ip : {<<>>, <<0>>, <<1>>, <<1, 2>>, <<5>>, <<0, 7>>}, fp : {NoPart, <<>>, <<5>>, <<2, 5>>, <<0>>, <<1>>, <<1, 2, 5>>},
                          ex : {-100, 0, 1, 2, -1, -2, 3, 22, -3}, plus : BOOLEAN, upper : BOOLEAN] :
                      /\ (f.fp = NoPart => f.ip # <<>> /\ f.ex # -100)         \* needs a point or an exponent
                      /\ (f.fp = <<>> => f.ip # <<>>)                          \* "5." but not "."
                      /\ (f.plus => f.ex \in 0..100) }
AbsN(n) == IF n < 0 THEN -n ELSE n
FloatText(f) == (IF f.neg THEN <<45>> ELSE <<>>) \o DigitChars(f.ip, FALSE)
                \o (IF f.fp = NoPart THEN <<>> ELSE <<46>> \o DigitChars(f.fp, FALSE))
                \o (IF f.ex = -100 THEN <<>> ELSE <<(IF f.upper THEN 69 ELSE 101)>> \o (IF f.ex < 0 THEN <<45>> ELSE IF f.plus THEN <<43>> ELSE <<>>)
                                                  \o DigitChars(ToDigits(MFromNat(AbsN(f.ex)), 10), FALSE))
FloatExp(f) == FloatDenote(f.neg, f.ip, IF f.fp = NoPart THEN <<>> ELSE f.fp, IF f.ex = -100 THEN 0 ELSE f.ex)
Init == kind = "init" /\ sp = <<>> /\ text = <<>> /\ exp = Indef
Next == /\ kind = "init"
        /\ \/ (kind' = "int" /\ \E s \in IntSpellings : sp' = s /\ text' = IntText(s) /\ exp' = IntExp(s))
           \/ (kind' = "float" /\ \E f \in FloatSpellings : sp' = f /\ text' = FloatText(f) /\ exp' = FloatExp(f))
Spec == Init /\ [][Next]_vars
\* the spelled number, or an error exactly when it does not fit
IntDenotes == kind = "int" =>
   LET x == Mk(sp.neg, sp.m) IN
   IF sp.uns THEN (IF InUint(64, x) THEN exp = UintV(x) ELSE exp = Err)
   ELSE (IF InInt(64, x) THEN exp = IntV(x) ELSE exp = Err)
SpellingIndependent == kind = "int" => IntExp([sp EXCEPT !.zeros = 0, !.upper = FALSE]) = exp
FloatSign == (kind = "float" /\ exp.t = "double") => exp.neg = sp.neg
=============================================================================
