---------------------------- MODULE MC_C19 ----------------------------
(* C19 model: ops x value kinds x value_type transforms x resources on both sides of each comparison boundary
   (FAMILY "ops"), policy strings for the literal contract (FAMILY "strings"), day / second counts (FAMILY "durations"). *)
EXTENDS C7nValue, TLC
CONSTANT FAMILY
VARIABLES case, exp
vars == <<case, exp>>
I(n) == IntV(FromInt(n))
S(s) == Str(s)
Big == FAMILY = "opsL"          \* the thorough tier: larger operand pools
Ints == { I(n) : n \in 0..(IF Big THEN 6 ELSE 3) }
Strs == { S(<<>>), S(<<97>>), S(<<98>>), S(<<97, 98>>), S(<<98, 97>>), S(<<65>>) } \cup (IF Big THEN { S(<<97, 97>>), S(<<66>>), S(<<233>>), S(<<97, 32>>), S(<<32, 97>>), S(<<128049>>) } ELSE {})
StrLists == { List(<<>>), List(<<S(<<97>>)>>), List(<<S(<<97>>), S(<<98>>)>>), List(<<S(<<98>>), S(<<98>>)>>), List(<<S(<<99>>)>>) }
            \cup (IF Big THEN { List(<<S(<<98>>), S(<<97>>)>>), List(<<S(<<97>>), S(<<97>>), S(<<98>>)>>), List(<<S(<<>>)>>), List(<<S(<<65>>), S(<<97>>)>>) } ELSE {})
IntLists == { List(<<>>), List(<<I(1)>>), List(<<I(1), I(2)>>), List(<<I(3), I(3)>>), List(<<I(0), I(22)>>) }
GlobPats == { S(<<42>>), S(<<97, 42>>), S(<<63>>), S(<<97>>), S(<<42, 97>>), S(<<91, 97, 93>>) }
            \cup (IF Big THEN { S(<<63, 63>>), S(<<97, 63>>), S(<<91, 33, 97, 93>>), S(<<91, 97, 98, 93, 42>>), S(<<42, 98, 42>>), S(<<>>), S(<<91>>) } ELSE {})
Now == Join(DaysFromCivil(2021, 6, 1), 0, 0)
Stamps == { Ts(Add(Now, Mul(FromInt(k), Mega))) : k \in { -86400 * 3, -86400 * 2 - 1, -86400 * 2, -86400 * 2 + 1, -86400, 0, 86400, 86400 * 2 - 1, 86400 * 2, 86400 * 2 + 1, 86400 * 3 } }
Mk4(op, vt, r, v) == [op |-> op, vt |-> vt, r |-> r, v |-> v]
EqOps == {"eq", "equal", "ne", "not-equal"}
OpsCases ==
       { Mk4(o, "none", r, v) : o \in EqOps \cup Ordering, r \in Ints, v \in Ints }
  \cup { Mk4(o, "none", r, v) : o \in EqOps \cup Ordering, r \in Strs, v \in Strs }
  \cup { Mk4(o, "none", r, v) : o \in {"in", "ni", "not-in"}, r \in Strs, v \in StrLists }
  \cup { Mk4("contains", "none", r, v) : r \in StrLists, v \in Strs }
  \* lists of numbers (ports, counts) are lists of numbers, not of their spellings
  \cup { Mk4(o, "none", r, v) : o \in {"in", "ni", "not-in"}, r \in Ints, v \in IntLists }
  \cup { Mk4("contains", "none", r, v) : r \in IntLists, v \in Ints }
  \cup { Mk4(o, "none", r, v) : o \in {"intersect", "difference"}, r \in IntLists, v \in IntLists }
  \cup { Mk4("glob", "none", r, v) : r \in Strs, v \in GlobPats }
  \cup { Mk4(o, "none", r, v) : o \in {"intersect", "difference"}, r \in StrLists, v \in StrLists }
  \cup { Mk4(o, "size", r, v) : o \in EqOps \cup Ordering, r \in StrLists, v \in Ints }
  \cup { Mk4(o, "unique_size", r, v) : o \in EqOps \cup Ordering, r \in StrLists, v \in Ints }
  \cup { Mk4(o, "integer", S(<<48 + n>>), v) : o \in EqOps \cup Ordering, n \in 0..3, v \in Ints }
  \cup { Mk4(o, "normalize", r, v) : o \in EqOps, r \in { S(<<32, 65, 32>>), S(<<65, 66>>), S(<<97, 98>>), S(<<97>>) }, v \in Strs }
  \cup { Mk4(o, "swap", r, v) : o \in Ordering, r \in Ints, v \in Ints }
  \cup { Mk4(o, "swap", r, v) : o \in {"in", "ni"}, r \in StrLists, v \in Strs }
  \cup { Mk4(o, vt, r, I(2)) : o \in Ordering, vt \in {"age", "expiration"}, r \in Stamps }
\* policy strings in which a backslash is followed by what would be an escape sequence in CEL source (a Windows path, a regular expression):
\* the string is data -- the literal emitted for it must evaluate back to exactly these characters
EscWords == { <<120, 54, 52>>, <<117, 48, 48, 101, 57>>, <<85, 48, 48, 48, 48, 48, 48, 101, 57>>, <<49, 48, 49>>, <<110>>, <<116>>, <<34>>, <<92, 120, 54, 52>> }
LookAlikes == { p \o <<92>> \o w \o q : p \in {<<>>, <<97>>, <<92>>}, w \in EscWords, q \in {<<>>, <<97>>} }
PolicyChars == { 97, 34, 39, 92, 10, 9, 233, 32, 128049 }        \* (the last one lies outside the basic multilingual plane)
RECURSIVE Seqs(_,_)
Seqs(A, n) == IF n = 0 THEN {<<>>} ELSE LET r == Seqs(A, n - 1) IN r \cup { Append(s, a) : s \in { x \in r : Len(x) = n - 1 }, a \in A }
Init == case = [op |-> "none"] /\ exp = Null
Next == /\ case = [op |-> "none"]
        /\ CASE FAMILY \in {"ops", "opsL"} -> \E c \in OpsCases : case' = c /\ exp' = Bool(Decision(c.op, c.vt, c.r, c.v, Now))
             [] FAMILY = "presence" -> \E v \in {"present", "absent"}, res \in {"missing", "null", "value"}, form \in {"key", "tag", "path"} :
                                          case' = [op |-> "presence", value |-> v, res |-> res, form |-> form] /\ exp' = Bool(Presence(v, res))
             [] FAMILY \in {"strings", "strings4"} -> \E s \in Seqs(PolicyChars, IF FAMILY = "strings4" THEN 4 ELSE 3) \cup LookAlikes : case' = [op |-> "literal", s |-> s] /\ exp' = Str(s)
             [] FAMILY = "durations" -> \E n \in {0, 1, 59, 60, 61, 3599, 3600, 3661, 86399, 86400, 90061, 1000000} \cup { 86400 * d : d \in {0, 1, 2, 30, 365} } \cup {43200} :
                                           case' = [op |-> "duration", secs |-> n] /\ exp' = Dur(Mul(FromInt(n), Mega))
Spec == Init /\ [][Next]_vars
\* the synonyms name the same relation; le / lte is the converse of gt with equality: x <= y iff not (x > y)
PresenceIsComplement == case.op = "presence" => exp = Bool(~Presence(IF case.value = "present" THEN "absent" ELSE "present", case.res))
Synonyms == (case.op \in Ops /\ case.vt = "none") =>
     /\ (case.op = "le" => exp = Bool(Decision("lte", "none", case.r, case.v, Now)))
     /\ (case.op = "lte" => exp = Bool(~Decision("gt", "none", case.r, case.v, Now)))
     /\ (case.op = "equal" => exp = Bool(Decision("eq", "none", case.r, case.v, Now)))
     /\ (case.op = "ne" => exp = Bool(~Decision("eq", "none", case.r, case.v, Now)))
     /\ (case.op = "ge" => exp = Bool(~Decision("lt", "none", case.r, case.v, Now)))
     /\ (case.op = "ni" => exp = Bool(~Decision("in", "none", case.r, case.v, Now)))
=============================================================================
