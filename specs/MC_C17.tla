---------------------------- MODULE MC_C17 ----------------------------
(* C17 model: each helper function over exhaustive small input spaces; call = [fn, args], exp = what the function denotes.
   FAMILY "ctx": all histories of up to 4 evaluations under a filter context (each succeeds, fails with an evaluation
   error, or fails with an exception raised inside a helper): the context is the evaluation's filter during it, none after. *)
EXTENDS C7nLib, TLC
CONSTANTS FAMILY, TIER
Deep == TIER = "thorough"
VARIABLES call, exp, c7n, hist
vars == <<call, exp, c7n, hist>>
I(n) == IntV(FromInt(n))
S(s) == Str(s)
RECURSIVE Seqs(_,_)
Seqs(A, n) == IF n = 0 THEN {<<>>} ELSE LET r == Seqs(A, n - 1) IN r \cup { Append(s, a) : s \in { x \in r : Len(x) = n - 1 }, a \in A }
StrElems == { S(<<97>>), S(<<98>>), S(<<99>>) }
IntElems == { I(1), I(2), I(3) }
Lists(E) == { List(s) : s \in Seqs(E, IF Deep THEN 4 ELSE 3) }
NormTexts == Seqs({97, 66, 32}, 4) \cup { <<9, 65, 10>>, <<32, 32>>, <<90, 32, 90>> }
GlobTexts == Seqs({97, 66, 91, 32}, 3)
GlobPats == Seqs({97, 66, 42, 63, 91, 93}, IF Deep THEN 4 ELSE 3) \cup { <<91, 33, 97, 93>>, <<91, 97, 66, 93>>, <<91, 33, 97, 93, 42>>, <<42, 91, 97, 93>>, <<91, 93, 93>>, <<91, 33, 93, 97, 93>>, <<97, 42, 66, 42>>, <<42, 42, 97>>, <<63, 42, 63>> }
Base == <<10, 129, 66, 7>>
\* flip bit k (0 = most significant) of an address
PowTwo(n) == 2 ^ n
FlipBit(a, k) == LET o == (k \div 8) + 1  b == 7 - (k % 8)  v == a[o] IN
                 [a EXCEPT ![o] = IF (v \div PowTwo(b)) % 2 = 1 THEN v - PowTwo(b) ELSE v + PowTwo(b)]
Nets == { [a |-> Masked(Base, l), len |-> l] : l \in 0..32 }
Addrs == { Base } \cup { FlipBit(Base, k) : k \in 0..31 } \cup { <<0, 0, 0, 0>>, <<255, 255, 255, 255>> }
Vers == { s \in Seqs({0, 1, 9, 10} \cup (IF Deep THEN {2, 100} ELSE {}), 3) : s # <<>> }
TagVals == { <<118>>, <<109, 58, 115, 116, 111, 112, 64, 50, 48, 50, 48, 45, 48, 57, 45, 49, 48>>,                       \* v ; m:stop@2020-09-10
             <<120, 58, 121, 58, 115, 116, 111, 112, 64, 50, 48, 50, 49, 45, 48, 50, 45, 50, 56>>,                        \* x:y:stop@2021-02-28
             <<110, 111, 97, 116>>, <<>>, <<109, 58, 97, 64, 98, 64, 50, 48, 50, 48, 45, 48, 49, 45, 48, 49>>,             \* noat ; (empty) ; m:a@b@2020-01-01
             <<109, 58, 32, 111, 112, 64, 50, 48, 50, 52, 45, 48, 50, 45, 50, 57>>, <<58, 64, 50, 48, 50, 48, 45, 48, 49, 45, 48, 49>> }  \* "m: op@2024-02-29" ; ":@2020-01-01"
TagKeys == { <<107>>, <<113>> }
Run(lo, n) == List([j \in 1..n |-> IntV(FromInt(lo + j - 1))])
LongLists == { Run(0, 20), Run(100, 20), Run(19, 20), Run(1, 20), Run(0, 16), Run(16, 16), Run(5, 17), Run(0, 15), Run(200, 20), Run(201, 20) }
TagLists == { s \in Seqs({ Tag(k, v) : k \in TagKeys, v \in {<<118>>, <<119>>} }, 2) : TRUE }
            \cup { <<Tag(<<107>>, <<>>), Tag(<<107>>, <<118>>)>>, <<Tag(<<107>>, <<118>>), Tag(<<107>>, <<>>)>> }      \* the first match wins, empty or not
            \cup { <<Tag(<<107>>, v)>> : v \in TagVals } \cup { <<Tag(<<113>>, <<118>>), Tag(<<107>>, v)>> : v \in TagVals }
Arns == { <<97,114,110,58,97,119,115,58,115,51,58,58,58,98,117,99,107,101,116>>,                                         \* arn:aws:s3:::bucket
          <<97,114,110,58,97,119,115,58,101,99,50,58,117,115,45,101,97,115,116,45,49,58,49,50,51,58,105,110,115,116,97,110,99,101,47,105,45,49>>,   \* arn:aws:ec2:us-east-1:123:instance/i-1
          <<97,114,110,58,97,119,115,58,114,100,115,58,117,115,45,101,97,115,116,45,49,58,49,50,51,58,100,98,58,109,121,100,98>>,                   \* arn:aws:rds:us-east-1:123:db:mydb
          <<120,114,110,58,97,119,115,58,115,51,58,58,58,98>>, <<97,114,110,58,97,119,115>> }                           \* xrn:aws:s3:::b ; arn:aws
ArnFieldNames == { "partition", "service", "region", "account-id", "resource-type", "resource-id", "nope" }
StrOf(f) == CASE f = "partition" -> <<112,97,114,116,105,116,105,111,110>> [] f = "service" -> <<115,101,114,118,105,99,101>> [] f = "region" -> <<114,101,103,105,111,110>>
              [] f = "account-id" -> <<97,99,99,111,117,110,116,45,105,100>> [] f = "resource-type" -> <<114,101,115,111,117,114,99,101,45,116,121,112,101>>
              [] f = "resource-id" -> <<114,101,115,111,117,114,99,101,45,105,100>> [] OTHER -> <<110,111,112,101>>
C(fn, args) == [fn |-> fn, args |-> args]
Cases ==
  CASE FAMILY = "sets" -> { <<C(f, <<a, b>>), IF f = "intersect" THEN Intersect(a, b) ELSE Difference(a, b)>> : f \in {"intersect", "difference"}, a \in Lists(StrElems), b \in Lists(StrElems) }
                          \cup { <<C(f, <<a, b>>), IF f = "intersect" THEN Intersect(a, b) ELSE Difference(a, b)>> : f \in {"intersect", "difference"}, a \in Lists(IntElems), b \in Lists(IntElems) }
                          \cup { <<C("unique_size", <<a>>), UniqueSize(a)>> : a \in Lists(StrElems) \cup Lists(IntElems) }
                          \* long lists (a resource's security groups against an allow-list): 20 members, sharing no / the last / every member
                          \cup { <<C(f, <<a, b>>), IF f = "intersect" THEN Intersect(a, b) ELSE Difference(a, b)>> : f \in {"intersect", "difference"}, a \in LongLists, b \in LongLists }
                          \cup { <<C(f, <<a, b>>), IF f = "intersect" THEN Intersect(a, b) ELSE Difference(a, b)>> : f \in {"intersect", "difference"}, a \in Lists(IntElems), b \in LongLists }
    [] FAMILY = "text" -> { <<C("normalize", <<S(t)>>), Normalize(S(t))>> : t \in NormTexts }
                          \cup { <<C("glob", <<S(t), S(p)>>), Bool(Glob(t, p))>> : t \in GlobTexts, p \in GlobPats }
    [] FAMILY = "cidr" -> { <<C("contains_addr", <<S(NetText(n)), S(AddrText(a))>>), Bool(NetContainsAddr(n, a))>> : n \in Nets, a \in Addrs }
                          \cup { <<C("contains_net", <<S(NetText(n)), S(NetText(x))>>), Bool(NetContainsNet(n, x))>> : n \in Nets, x \in Nets }
                          \cup { <<C("size_parse_cidr", <<S(NetText(n))>>), I(n.len)>> : n \in Nets }
    [] FAMILY = "version" -> { <<C("version_cmp", <<S(VerText(a)), S(VerText(b))>>), I(VerCmp(a, b))>> : a \in Vers, b \in Vers }
    [] FAMILY = "tags" -> { <<C("key", <<List(t), S(k)>>), KeyOf(t, k)>> : t \in TagLists, k \in TagKeys \cup {<<122>>} }
                          \cup { <<C("marked_key", <<List(t), S(k)>>), MarkedKey(t, k)>> : t \in TagLists, k \in TagKeys }
    [] FAMILY = "arn" -> { <<C("arn_split", <<S(a), S(StrOf(f))>>), ArnSplit(a, f)>> : a \in Arns, f \in ArnFieldNames }
    [] OTHER -> {}
NoCall == C("none", <<>>)
Init == call = NoCall /\ exp = Null /\ c7n = "none" /\ hist = <<>>
Pick == FAMILY # "ctx" /\ call = NoCall /\ \E c \in Cases : call' = c[1] /\ exp' = c[2] /\ UNCHANGED <<c7n, hist>>
\* the context machine: one evaluation = Enter(f); Observe (the helper sees f); Exit on every path
Kinds == {"ok", "celerror", "raises"}
Filters == {"f1", "f2"}
EvalStep == FAMILY = "ctx" /\ Len(hist) < 4 /\ c7n = "none" /\ \E f \in Filters, k \in Kinds :
               hist' = Append(hist, [filter |-> f, kind |-> k, seen |-> f, after |-> "none"]) /\ c7n' = "none" /\ UNCHANGED <<call, exp>>
Next == Pick \/ EvalStep
Spec == Init /\ [][Next]_vars
\* outside an evaluation there is no context; inside, the helpers saw exactly the filter of that evaluation
ContextClean == c7n = "none" /\ \A j \in 1..Len(hist) : hist[j].seen = hist[j].filter /\ hist[j].after = "none"
\* laws
SetLaws == (call.fn \in {"intersect", "difference"}) =>
     /\ (call.fn = "intersect" => exp = Intersect(call.args[2], call.args[1]))                                   \* symmetric
     /\ (call.fn = "difference" /\ call.args[1] = call.args[2] => exp = Bool(FALSE))
     /\ (call.args[1].v = <<>> => exp = Bool(FALSE))
GlobLaws == (call.fn = "glob") => /\ (call.args[2].v = <<42>> => exp = Bool(TRUE))
                                   /\ ((\A j \in 1..Len(call.args[2].v) : call.args[2].v[j] \notin {42, 63, 91}) => exp = Bool(call.args[1].v = call.args[2].v))
CidrLaws == /\ (call.fn = "contains_net" /\ call.args[1] = call.args[2] => exp = Bool(TRUE))
            /\ (call.fn \in {"contains_addr", "contains_net"} /\ call.args[1].v = NetText([a |-> <<0, 0, 0, 0>>, len |-> 0]) => exp = Bool(TRUE))
VersionLaws == (call.fn = "version_cmp" /\ call.args[1] = call.args[2]) => exp = I(0)
=============================================================================
