---------------------------- MODULE CelRepl ----------------------------
(* The interactive mode (`celpy -i`, class CEL_REPL in celpy/__main__.py) as a state machine.  Not one of the listed
   properties: part of the growth of the specification over the system's behaviour (DESIGN.md section 12).

   State: the activation `st` that `set` extends (a sequence of <<name, value>>, names unique, in the order of first
   assignment -- which is what `show` prints), the last command (an empty input line repeats it, as cmd.Cmd does), and
   whether the loop is still reading.

     set NAME EXPR : evaluates EXPR in the current activation; a value is printed and bound to NAME (replacing an earlier binding
                     in place); an evaluation error, a syntax error or a missing EXPR prints no value and leaves the activation as it was
     EXPR          : evaluates EXPR in the current activation and prints the value; never changes the activation
     show          : prints the activation; never changes it
     (empty line)  : repeats the last non-empty command, with its effect
     quit / exit / bye / EOF : ends the loop; nothing after it is read

   A command is a record [c |-> "set", n |-> name, e |-> AST or BadSyntax / NoExpr] | [c |-> "expr", e |-> ...] | [c |-> "show"] | [c |-> "empty"]
   | [c |-> "quit", w |-> spelling].  The output of a step: [o |-> "value", v |-> value] | [o |-> "nothing"] (error: logged, not printed)
   | [o |-> "state"] | [o |-> "indef"] (the expression's value is not fixed by the language definition: the behaviour ends there). *)
EXTENDS CelEval
VARIABLES st, last, alive, out
replvars == <<st, last, alive, out>>

BadSyntax == [k |-> "badsyntax"]
NoExpr == [k |-> "noexpr"]
NoCmd == [c |-> "none"]
IsAst(e) == e.k \notin {"badsyntax", "noexpr"}
Bound(s, n) == \E i \in 1..Len(s) : s[i][1] = n
Upsert(s, n, v) == IF Bound(s, n) THEN [i \in 1..Len(s) |-> IF s[i][1] = n THEN <<n, v>> ELSE s[i]] ELSE Append(s, <<n, v>>)
ValueOf(e, s) == IF IsAst(e) THEN Eval(e, s) ELSE Err

\* the effect of one non-empty, non-quit command on (st, out)
Effect(cmd, s) ==
  CASE cmd.c = "set" -> (LET v == ValueOf(cmd.e, s) IN
                         IF IsIndef(v) THEN [st |-> s, out |-> [o |-> "indef"]]
                         ELSE IF IsErr(v) THEN [st |-> s, out |-> [o |-> "nothing"]]
                         ELSE [st |-> Upsert(s, cmd.n, v), out |-> [o |-> "value", v |-> v]])
    [] cmd.c = "expr" -> (LET v == ValueOf(cmd.e, s) IN
                          IF IsIndef(v) THEN [st |-> s, out |-> [o |-> "indef"]]
                          ELSE IF IsErr(v) THEN [st |-> s, out |-> [o |-> "nothing"]]
                          ELSE [st |-> s, out |-> [o |-> "value", v |-> v]])
    [] cmd.c = "show" -> [st |-> s, out |-> [o |-> "state"]]
    [] OTHER -> [st |-> s, out |-> [o |-> "nothing"]]

ReplInit == st = <<>> /\ last = NoCmd /\ alive = TRUE /\ out = [o |-> "nothing"]
Running == alive /\ out.o # "indef"
Do(cmd) == /\ Running /\ cmd.c \in {"set", "expr", "show"}
           /\ LET r == Effect(cmd, st) IN st' = r.st /\ out' = r.out
           /\ last' = cmd /\ UNCHANGED alive
Empty == /\ Running
         /\ LET r == Effect(last, st) IN st' = r.st /\ out' = r.out       \* with no earlier command: nothing happens
         /\ UNCHANGED <<last, alive>>
Quit(w) == Running /\ alive' = FALSE /\ out' = [o |-> "nothing"] /\ last' = [c |-> "quit", w |-> w] /\ UNCHANGED st

\* ---- what the loop guarantees
\* (TLC refuses to compare values of different shapes with =, hence a structural identity that looks at the type tags first)
RECURSIVE Same(_,_)
Same(a, b) == /\ a.t = b.t
              /\ IF a.t = "list" THEN Len(a.v) = Len(b.v) /\ \A i \in 1..Len(a.v) : Same(a.v[i], b.v[i])
                 ELSE IF a.t = "map" THEN Len(a.v) = Len(b.v) /\ \A i \in 1..Len(a.v) : Same(a.v[i][1], b.v[i][1]) /\ Same(a.v[i][2], b.v[i][2])
                 ELSE a = b
SameBinding(x, y) == x[1] = y[1] /\ Same(x[2], y[2])
SameSt(s, t) == Len(s) = Len(t) /\ \A i \in 1..Len(s) : SameBinding(s[i], t[i])
NamesUnique == \A i, j \in 1..Len(st) : st[i][1] = st[j][1] => i = j
OnlyValues == \A i \in 1..Len(st) : ~IsErr(st[i][2]) /\ ~IsIndef(st[i][2])
\* only a successful set changes the activation, and it changes exactly one name
OnlySetWrites == [][~SameSt(st, st') => /\ (last'.c = "set")
                                /\ out'.o = "value"
                                /\ \A i \in 1..Len(st) : st'[i][1] = st[i][1] /\ (st'[i][1] # last'.n => SameBinding(st'[i], st[i]))
                                /\ Len(st') \in {Len(st), Len(st) + 1}]_replvars
Stopped == [][~alive => UNCHANGED replvars]_replvars
=============================================================================
