---------------------------- MODULE MC_C15 ----------------------------
(* C15 model: JSON documents up to depth 3 assembled from scalar pools (int64 boundaries, booleans next to 0 / 1, -0.0, large
   exponents, empty and non-ASCII strings and keys); cel = ToCel(doc), back = Encode(cel), and every valid path. *)
EXTENDS CelJson, TLC
CONSTANT DEPTH
VARIABLES doc, cel, back
vars == <<doc, cel, back>>
JI(x) == [j |-> "int", neg |-> x.neg, m |-> x.m]
JF(x) == [j |-> "float", c |-> x.c, neg |-> x.neg, m |-> x.m, e |-> x.e]
JS(s) == [j |-> "str", v |-> s]
JB(b) == [j |-> "bool", v |-> b]
Scalars == { JNull, JB(TRUE), JB(FALSE), JI(Z), JI(One), JI(FromInt(-1)), JI(IntMin(64)), JI(IntMax(64)), JI(Add(Pow2(53), One)),
             JF(Zero(FALSE)), JF(Zero(TRUE)), JF(Fin(FALSE, <<1>>, 0)), JF(Fin(FALSE, <<3>>, -1)), JF(Fin(TRUE, <<1>>, 1000)), JF(Fin(FALSE, <<1>>, -1074)),
             JS(<<>>), JS(<<97>>), JS(<<233>>), JS(<<128049>>), JS(<<34, 92, 10>>) }
Few == { JNull, JB(TRUE), JI(One), JF(Fin(FALSE, <<1>>, 0)), JS(<<97>>) }
Keys == { <<97>>, <<>>, <<233>>, <<107, 32, 121>>, <<98>> }
Wrap(S) == { [j |-> "arr", v |-> <<>>], [j |-> "obj", v |-> <<>>] }
      \cup { [j |-> "arr", v |-> <<x>>] : x \in S } \cup { [j |-> "arr", v |-> <<x, y>>] : x \in S, y \in Few }
      \cup { [j |-> "arr", v |-> <<JI(One), x, JB(FALSE)>>] : x \in S }          \* a number first, then whatever it is, then a boolean
      \cup { [j |-> "obj", v |-> << <<k, x>> >>] : k \in Keys, x \in S }
      \cup { [j |-> "obj", v |-> << <<k1, x>>, <<k2, y>> >>] : k1 \in {<<97>>, <<233>>}, k2 \in {<<98>>, <<>>}, x \in S, y \in Few }
TsOf(y, mo, d, sec, us) == Ts(Join(DaysFromCivil(y, mo, d), sec, us))
Special == { TsOf(1970, 1, 1, 0, 0), TsOf(999, 12, 31, 86399, 0), TsOf(2024, 2, 29, 3661, 0), TsOf(9999, 12, 31, 86399, 0), TsOf(1, 1, 1, 0, 0),
             Dur(Z), Dur(Mega), Dur(Neg(Mega)), Dur(Mul(FromInt(3661), Mega)), Dur(DurLimUs), Dur(Neg(DurLimUs)),
             \* values with a fraction of a second: their text must denote them (milliseconds, microseconds, negative, less than a second)
             TsOf(2009, 2, 13, 84690, 500000), TsOf(2009, 2, 13, 84690, 123456), TsOf(1969, 12, 31, 86399, 999999), TsOf(1, 1, 1, 0, 1),
             Dur(FromInt(1500000)), Dur(FromInt(-1500000)), Dur(One), Dur(FromInt(-1)), Dur(FromInt(250)), Dur(Sub(DurLimUs, One)),
             Bytes(<<>>), Bytes(<<0>>), Bytes(<<255, 254>>), Bytes(<<97, 98, 99>>), Bytes(<<251, 239, 190, 0>>), Bytes(<<104, 101, 108, 108, 111>>) }
Init == \/ (doc \in Scalars /\ cel = ToCel(doc) /\ back = Encode(cel))
        \/ (doc = JNull /\ cel \in Special /\ back = Encode(cel))
        \/ (doc = JNull /\ \E x \in Special : cel = List(<<x, x>>) /\ back = Encode(cel))
        \/ (doc = JNull /\ \E x \in Special : cel = Map(<< <<Str(<<107>>), x>> >>) /\ back = Encode(cel))
\* grow: wrap the current document once more (bounded by DEPTH)
RECURSIVE Depth(_)
Max(S) == IF S = {} THEN 0 ELSE CHOOSE m \in S : \A n \in S : n <= m
Depth(d) == IF d.j = "arr" THEN 1 + Max({ Depth(d.v[i]) : i \in 1..Len(d.v) })
            ELSE IF d.j = "obj" THEN 1 + Max({ Depth(d.v[i][2]) : i \in 1..Len(d.v) }) ELSE 0
Next == /\ cel = ToCel(doc) /\ Depth(doc) < DEPTH /\ doc' \in Wrap({doc}) /\ cel' = ToCel(doc') /\ back' = Encode(cel')
Spec == Init /\ [][Next]_vars
RoundTrip == cel = ToCel(doc) => back = doc
BoolStaysBool == cel = ToCel(doc) => ((doc.j = "bool" => cel.t = "bool") /\ (doc.j = "int" => cel.t = "int") /\ (doc.j = "float" => cel.t = "double"))
\* base64 text has length 4 * ceil(n / 3) and uses the standard alphabet
Base64Shape == (cel.t = "bytes") => Len(back.v) = 4 * ((Len(cel.v) + 2) \div 3)
PathsCommute == cel = ToCel(doc) => \A p \in Paths(doc) : CelNavigate(cel, p) = ToCel(JNavigate(doc, p))
=============================================================================
