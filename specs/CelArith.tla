---------------------------- MODULE CelArith ----------------------------
(* CEL numeric operators, written from the language definition (C01).
   int  : two's-complement range [-2^(W-1), 2^(W-1)), uint : [0, 2^W)       (W = 64 in CEL)
   + - * / % and unary minus are exact when the exact result fits, an error otherwise;
   / truncates toward zero, % takes the sign of the dividend; x/0, x%0 are errors;
   unary minus on a uint is an error.
   double: IEEE-754 binary64.  A double is [c, neg, m, e]:
       c = "nan" | "inf" | "zero" | "fin";  value of fin = (-1)^neg * m * 2^e with m an odd magnitude.
   Results are *definite* only where the exact result is representable (or overflows to infinity),
   because TLC has no floating point; rounding of inexact results is out of model.  *)
EXTENDS Integers, Sequences
B == 32768
LB == 15
INSTANCE BigInt

Err == [t |-> "err"]
IntV(x) == [t |-> "int", neg |-> x.neg, m |-> x.m]
UintV(x) == [t |-> "uint", neg |-> FALSE, m |-> x.m]
BigOf(v) == Mk(v.neg, v.m)

IntMin(W) == Neg(Pow2(W - 1))
IntMax(W) == Sub(Pow2(W - 1), One)
UintMax(W) == Sub(Pow2(W), One)
InInt(W, x) == Cmp(x, IntMin(W)) >= 0 /\ Cmp(x, IntMax(W)) <= 0
InUint(W, x) == ~x.neg /\ Cmp(x, UintMax(W)) <= 0

IntRes(W, x) == IF InInt(W, x) THEN IntV(x) ELSE Err
UintRes(W, x) == IF InUint(W, x) THEN UintV(x) ELSE Err

\* exact integer result (divisor # 0 for / and %)
Exact(op, x, y) ==
  CASE op = "+" -> Add(x, y)
    [] op = "-" -> Sub(x, y)
    [] op = "*" -> Mul(x, y)
    [] op = "/" -> TDiv(x, y)
    [] op = "%" -> TRem(x, y)
ZeroDiv(op, y) == op \in {"/", "%"} /\ IsZero(y)

IntOp(W, op, x, y) == IF ZeroDiv(op, y) THEN Err ELSE IntRes(W, Exact(op, x, y))
UintOp(W, op, x, y) == IF ZeroDiv(op, y) THEN Err ELSE UintRes(W, Exact(op, x, y))
IntNeg(W, x) == IntRes(W, Neg(x))
UintNeg(W, x) == Err

BinOps == {"+", "-", "*", "/", "%"}

----------------------------------------------------------------------------
(* doubles *)
NaN == [t |-> "double", c |-> "nan", neg |-> FALSE, m |-> <<>>, e |-> 0]
Inf(neg) == [t |-> "double", c |-> "inf", neg |-> neg, m |-> <<>>, e |-> 0]
Zero(neg) == [t |-> "double", c |-> "zero", neg |-> neg, m |-> <<>>, e |-> 0]
\* normalise m * 2^e to odd m
Fin(neg, m, e) == IF m = <<>> THEN Zero(neg)
                  ELSE LET z == MTz(m) IN [t |-> "double", c |-> "fin", neg |-> neg, m |-> MShr(m, z), e |-> e + z]
Indef == [t |-> "indef"]          \* the property does not fix this outcome in the model

\* IEEE-754 binary64 round-to-nearest, ties-to-even, of the exact value (m + f) * 2^e with 0 <= f < 1 (sticky <=> f > 0):
\* keep 53 significant bits (fewer below 2^-1022: the exponent cannot go under -1074), magnitude >= 2^1024 after rounding -> infinity.
\* With sticky the caller must supply at least 55 bits in m (so that f cannot decide the rounding alone).
RoundNE(neg, m, e, sticky) ==
  IF m = <<>> THEN (IF sticky THEN Indef ELSE Zero(neg))
  ELSE LET b == MBits(m)
           sh0 == IF b > 53 THEN b - 53 ELSE 0
           sh == IF e + sh0 < -1074 THEN -1074 - e ELSE sh0
       IN IF sh <= 0 THEN (IF sticky THEN Indef ELSE IF e + b > 1024 THEN Inf(neg) ELSE Fin(neg, m, e))
          ELSE LET q == MShr(m, sh)
                   r == MSub(m, MShl(q, sh))
                   c == MCmp(MShl(r, 1), MPow2(sh))                   \* the discarded part against one half
                   up == c > 0 \/ (c = 0 /\ (sticky \/ (q # <<>> /\ q[1] % 2 = 1)))
                   q2 == IF up THEN MAdd(q, <<1>>) ELSE q
               IN IF q2 = <<>> THEN Zero(neg) ELSE IF (e + sh) + MBits(q2) > 1024 THEN Inf(neg) ELSE Fin(neg, q2, e + sh)
\* IEEE result of an exact dyadic value
Round(d) == IF d.c # "fin" THEN d ELSE RoundNE(d.neg, d.m, d.e, FALSE)
\* the correctly rounded quotient n / d * 2^e of two positive magnitudes (64 extra quotient bits + sticky remainder)
RoundQuot(neg, n, d, e) ==
  LET k == Max2(0, 66 + MBits(d) - MBits(n))
      qr == MDivMod(MShl(n, k), d)
  IN RoundNE(neg, qr[1], e - k, qr[2] # <<>>)

DNeg(x) == IF x.c = "nan" THEN NaN ELSE [x EXCEPT !.neg = ~x.neg]

\* exact sum of two finite-or-zero values
FinAdd(x, y) ==
  IF x.c = "zero" /\ y.c = "zero" THEN Zero(x.neg /\ y.neg)      \* (+0)+(-0) = +0 in round-to-nearest
  ELSE IF x.c = "zero" THEN y ELSE IF y.c = "zero" THEN x
  ELSE LET e == IF x.e < y.e THEN x.e ELSE y.e
           sx == Mk(x.neg, MShl(x.m, x.e - e))
           sy == Mk(y.neg, MShl(y.m, y.e - e))
           s == Add(sx, sy)
       IN IF IsZero(s) THEN Zero(FALSE) ELSE Fin(s.neg, s.m, e)

DAdd(x, y) ==
  IF x.c = "nan" \/ y.c = "nan" THEN NaN
  ELSE IF x.c = "inf" /\ y.c = "inf" THEN (IF x.neg = y.neg THEN x ELSE NaN)
  ELSE IF x.c = "inf" THEN x ELSE IF y.c = "inf" THEN y
  ELSE Round(FinAdd(x, y))
DSub(x, y) == DAdd(x, DNeg(y))
DMul(x, y) ==
  IF x.c = "nan" \/ y.c = "nan" THEN NaN
  ELSE IF (x.c = "inf" /\ y.c = "zero") \/ (x.c = "zero" /\ y.c = "inf") THEN NaN
  ELSE IF x.c = "inf" \/ y.c = "inf" THEN Inf(x.neg # y.neg)
  ELSE IF x.c = "zero" \/ y.c = "zero" THEN Zero(x.neg # y.neg)
  ELSE Round(Fin(x.neg # y.neg, MMul(x.m, y.m), x.e + y.e))
DDiv(x, y) ==
  IF x.c = "nan" \/ y.c = "nan" THEN NaN
  ELSE IF x.c = "inf" /\ y.c = "inf" THEN NaN
  ELSE IF x.c = "zero" /\ y.c = "zero" THEN NaN
  ELSE IF x.c = "inf" THEN Inf(x.neg # y.neg)
  ELSE IF y.c = "inf" THEN Zero(x.neg # y.neg)
  ELSE IF y.c = "zero" THEN Inf(x.neg # y.neg)          \* finite non-zero / +-0 = +-inf
  ELSE IF x.c = "zero" THEN Zero(x.neg # y.neg)
  ELSE RoundQuot(x.neg # y.neg, x.m, y.m, x.e - y.e)
DOp(op, x, y) == CASE op = "+" -> DAdd(x, y) [] op = "-" -> DSub(x, y) [] op = "*" -> DMul(x, y) [] op = "/" -> DDiv(x, y)
DOps == {"+", "-", "*", "/"}
=============================================================================
